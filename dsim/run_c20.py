"""C20 check driver."""

import json
import os
import sys
import time

from . import c20, core, report

PARAMS = {
    'quick': dict(sessions=36_000, extended=3_000, chunk=400, fresh=0.002),
    'thorough': dict(sessions=700_000, extended=40_000, chunk=2500, fresh=0.01),
}

REAL = ["everything in the package: ElectionProfile, Election (constructor, count, report/dump/json), all rules, "
        "Fixed/Guarded/Rational and their initialize(), Options, ElectionRecord, Election.makehelp, Droop.usage"]
STUB = ["process freshness: os.fork from a zygote that imported droop and never built an Election",
        "sys.stdout sink", "SIGINT for interrupted predecessors: the step-clock injector of the C19 engine"]

RULE_TEXT = ("random-history arm: seeded sessions of 1-6 (5 %: 7-12, 1 %: 20-40) predecessor operations (elections counted and rendered in "
             "an ordered, possibly repeating subset of report/dump/json; counts interrupted at line event k and "
             "rendered with intr=True; help/usage requests; failing parses) followed by the target election; half of "
             "the predecessors use the target's value class with other parameters, 1/8 repeat the target exactly; "
             "profile objects are shared between operations half of the time. pair-grid arm: every ordered pair "
             "(predecessor, target) of a configuration grid (all statutory rules; wigm/meek/warren x "
             "fixed/integer/guarded/rational x precision x guard x display) on two fixed profiles = every history of "
             "length 1 over the grid. evaluations = sessions (each = target after the history in one forked child + "
             "target alone in another). A key is (digest of the package's global state just before the target is "
             "constructed, target configuration); it is non-trivial when that state differs from the pristine one in "
             "an attribute of the target's own value class, i.e. there really was stale state to overwrite; "
             "distinct_nontrivial = number of distinct such keys.")


def _work(task):
    kind = task[0]
    if kind == 'sess':
        _, R, seed, first, count, ext, fresh = task
        return c20.work_sessions(R, seed, first, count, ext, fresh)
    if kind == 'wide':
        _, R, j = task
        return c20.work_wide(R, j)
    _, R, tier, ti = task
    return c20.work_grid(R, tier, ti)


def run(R, tier, seed):
    t0 = time.time()
    P = dict(PARAMS[tier])
    if os.environ.get('VERIF_C20_SESSIONS'):
        P['sessions'] = int(os.environ['VERIF_C20_SESSIONS'])
        P['extended'] = P['sessions'] // 10
    tasks = []
    arm = []
    G = c20.grid(tier)
    if not os.environ.get('VERIF_C20_NOGRID'):
        for ti in range(len(G)):
            tasks.append(('grid', R, tier, ti))
            arm.append('grid')
    if not os.environ.get('VERIF_C20_NOGRID'):
        for j in range(len(c20.special_sessions())):
            tasks.append(('wide', R, j))
            arm.append('wide')
    for first in range(0, P['sessions'], P['chunk']):
        tasks.append(('sess', R, seed, first, min(P['chunk'], P['sessions'] - first), False, P['fresh']))
        arm.append('random')
    for first in range(0, P['extended'], P['chunk']):
        tasks.append(('sess', R, seed, first, min(P['chunk'], P['extended'] - first), True, 0.0))
        arm.append('extended')
    results = core.fork_map(_work, tasks, timeout=3600.0, what='C20 chunk')

    total = c20.new_acc()
    per_arm = {}
    digest = []
    stub_dis = []
    for a, r in zip(arm, results):
        pa = per_arm.setdefault(a, dict(sessions=0, divergences=0))
        pa['sessions'] += r['sessions']
        pa['divergences'] += len(r['viol']) + len(r['notes'])
        # a divergence that needs a failed construction or count among the predecessors is a violation too (see
        # DESIGN 13): "all sequences of elections run back to back" includes attempts the package refused
        r['viol'].extend(r['notes'])
        r['notes'] = []
        total['sessions'] += r['sessions']
        total['keys'] |= r['keys']
        total['fps'] |= r['fps']
        core.merge_counts(total['probes'], r['probes'])
        core.merge_counts(total['outcomes'], r['outcomes'])
        core.merge_counts(total['pred_ops'], r['pred_ops'])
        total['viol'].extend(r['viol'])
        total['notes'].extend(r['notes'])
        digest.append(core.digest(r['digest']))
        stub_dis.extend(r.get('stub_disagreements', []))
        if r['samples'] and len(total['samples']) < 3 and a != 'grid':
            total['samples'].extend(r['samples'][:1])
    if not total['samples']:
        total['samples'].append(dict(grid_pair=dict(predecessor=G[0], target=G[1], profile=c20.GRID_TEXTS[0])))

    if stub_dis:
        raise core.HarnessError("a fork from the zygote and a fresh interpreter disagree on %d targets run alone, "
                                "e.g. %s" % (len(stub_dis), json.dumps(stub_dis[0])[:400]))
    notes = []
    seen_notes = set()
    for v in total['notes']:
        sig = json.dumps(c20.signature(v, v['session']['target']), sort_keys=True)
        if sig in seen_notes:
            continue
        seen_notes.add(sig)
        msg = ("NOTE extended-history divergence (needs a failed construction/count as predecessor; outside the "
               "statement, no verdict): %s %s" % (v.get('msg'), sig))
        print(msg[:400])
        notes.append(msg[:400])

    groups = {}
    for v in total['viol']:
        sig = json.dumps(c20.signature(v, v['session']['target']), sort_keys=True)
        g = groups.get(sig)
        if g is None or len(v['session']['ops']) < len(g['session']['ops']):
            groups[sig] = v
    out_groups = []
    for sig, v in sorted(groups.items())[:8]:
        try:
            rep = core.fork_call(c20.minimise, (R, seed, v), timeout=900, what='C20 minimise')
        except core.ChildFailed as e:
            print("NOTE minimisation failed (%s); reporting the unminimised session" % str(e)[:200])
            rep = c20.replay_object(R, seed, v)
        vv = rep['violation']
        out_groups.append(dict(signature=json.loads(sig), vclass=[vv['cls'], vv.get('what')], replay=rep,
                               run="%s-%s" % (v['idx'], core.digest(json.loads(sig))[:8]),
                               describe="%s: %s; want %r got %r; target %s after %s" % (
                                   vv['cls'], vv.get('msg'), (vv.get('want') or '')[:60], (vv.get('got') or '')[:60],
                                   json.dumps(rep['target']['options']),
                                   json.dumps([dict(op=o['op'], **({'options': o['options']} if 'options' in o else {}))
                                               for o in rep['history']])[:300])))
    code, nviol, known, _ = report.conclude('C20', seed, R.path, out_groups)

    wall = time.time() - t0
    cov = dict(
        evaluations=total['sessions'],
        distinct_nontrivial=len(total['keys']),
        rule=RULE_TEXT,
        samples=total['samples'],
        exhaustive=False,
        arms=per_arm,
        grid_configurations=len(G), grid_pairs_exhaustive=not os.environ.get('VERIF_C20_NOGRID'),
        grid_profiles=len(c20.GRID_TEXTS),
        target_outcomes=total['outcomes'],
        predecessor_operations=total['pred_ops'],
        probes=total['probes'],
        distinct_global_states_before_target=len(total['fps']),
        fault_kinds_fired={k: v for k, v in total['pred_ops'].items() if k.startswith(('interrupted', 'parse-fails',
                                                                                      'construct-fails', 'count-fails'))},
        simulated_runs=total['sessions'],
        runs_per_hour=int(total['sessions'] / wall * 3600) if wall > 0 else 0,
        simulated_time_unit="operations of a session (history length <= 6); no clock exists in the package",
        violation_signatures=len(groups), raw_violations=len(total['viol']),
        extended_arm_notes=notes, known_findings_matched=known,
        run_digest=core.digest(digest),
        components=dict(real=REAL, stub=STUB),
        tree=R.tree, workers=core.nproc(),
    )
    if total['sessions'] == 0:
        raise core.HarnessError("zero work done")
    ev = dict(property_id='C20', tier=tier, seed=seed, level='exploration', coverage=cov,
              assumptions=[
                  "a process forked from the zygote (droop imported, no Election ever built) is 'a fresh process'",
                  "options are handed to Election() as a fresh dict per operation, except in batch sessions where one dict "
                  "object is shared on purpose; reusing one Options object is excluded",
                  "a predecessor that raises is logged and skipped; only the target's bytes are compared",
                  "a predecessor that the package itself refuses (usage error, failed assertion) is part of the history; "
                  "a divergence that needs one is a violation like any other"],
              wall_s=round(wall, 2), violations=nviol)
    core.write_evidence('C20', ev)
    print("C20 %s: %d sessions (%s), grid %dx%dx%d, %d distinct stale-state keys, %d global states, "
          "%d raw divergences in %d signatures, %d extended notes, %.1fs" % (
              tier, total['sessions'], ", ".join("%s=%d" % (k, v['sessions']) for k, v in sorted(per_arm.items())),
              len(G), len(G), len(c20.GRID_TEXTS), len(total['keys']), len(total['fps']), len(total['viol']),
              len(groups), len(notes), wall))
    sys.stdout.flush()
    return code


def replay(R, obj):
    "re-execute a replay file"
    v, outcome = c20.run_replay(R, obj)
    if v is not None:
        print("REPLAY-CLASS %s" % json.dumps([v['cls'], v.get('what')]))
        if not os.environ.get('VERIF_REPLAY_QUIET'):
            print("  %s" % json.dumps({k: v.get(k) for k in ('cls', 'what', 'line', 'want', 'got', 'msg')}))
        print("REPLAY property=C20 reproduced (target outcome %s)" % outcome)
        return core.EXIT_VIOLATION
    print("REPLAY property=C20 no divergence (target outcome %s)" % outcome)
    return core.EXIT_OK
