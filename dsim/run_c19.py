"""C19 check driver: fan the cases out, aggregate, minimise, report, write evidence."""

import json
import os
import sys
import time

from . import c19, core, report

NCASES = {'quick': 231, 'thorough': 2200}
CASE_TIMEOUT = {'quick': 600.0, 'thorough': 1800.0}

REAL = ["droop.profile.ElectionProfile (parser)", "droop.election.Election (constructor, count, report/dump/json)",
        "all 11 rules under droop/rules", "droop.values Fixed/Guarded/Rational", "droop.record.ElectionRecord",
        "droop.candidate(s)", "droop.options.Options", "Droop.main (driver mode)"]
STUB = ["SIGINT delivery: KeyboardInterrupt raised from the sys.settrace step clock at the k-th line/opcode event "
        "(plus a sample through signal.raise_signal and CPython's default handler)",
        "sys.stdout: counting sink for Election.prog progress dots",
        "the ballot file behind path= in driver mode: SimFS (fault-free here)"]

RULE_TEXT = ("cases: chosen from a pool of 3x as many seeded generated elections (2-14 candidates, all 11 rules cycled by "
             "case index, option grid of DESIGN 4.3): those whose uninterrupted count executes package lines no earlier "
             "candidate executed (at most a third of the cases), then the first ones in index order; per case SIGINT is injected at every line event of package code inside Election.count() "
             "when T <= exh_cap, else at every event up to the end of the header fill + 50, around every action "
             "append, at every distinct executed line, in the last 30 events and on a stratified sample; plus "
             "opcode-level injections inside ElectionRecord._fill/action and Droop.main driver runs on a fraction "
             "of cases. evaluations = interrupted executions that were rendered and checked. A key is "
             "(rule, file:line at the instant, header state absent/partial/complete, inside-action-builder flag); "
             "it is non-trivial when the interrupt arrived strictly before the 'end' action was logged; "
             "distinct_nontrivial = number of distinct such keys.")


POOL = {'quick': 3, 'thorough': 3}
PRISTINE_CASES = {'quick': 44, 'thorough': 330}


def _probe(task):
    R, seed, idxs, tier = task
    return [c19.probe_case(R, seed, i, tier) for i in idxs]


def _work(task):
    R, seed, idx, tier = task
    t0 = time.time()
    r = c19.run_case(R, seed, idx, tier)
    r['wall'] = time.time() - t0
    return r


def run(R, tier, seed):
    t0 = time.time()
    n = int(os.environ.get('VERIF_C19_CASES', NCASES[tier]))
    # ---- pristine arm, before this process has counted anything (not even the warm-up): interrupted executions that
    # are the FIRST count of their process, over the header-fill window of the first cases
    npr = min(n, PRISTINE_CASES[tier])
    prefs = core.fork_map(c19.pristine_ref, [(R, seed, i, tier) for i in range(npr)], timeout=CASE_TIMEOUT[tier],
                          what='C19 pristine reference')
    ptasks = []
    for i, pref in enumerate(prefs):
        if pref is None:
            continue
        window = min(pref['T'], (pref['fill_done'] or 200) + 30)
        ks = sorted(set(range(1, window + 1, 3)) | {max(1, pref['T'] // 2), max(1, pref['T'] - 3)})
        for k in ks:
            ptasks.append((R, seed, i, tier, pref, k, c19.ORDERS[(k + i) % len(c19.ORDERS)]))
    pres = core.fork_map(c19.pristine_exec, ptasks, timeout=CASE_TIMEOUT[tier], what='C19 pristine execution')
    pristine_viols = [v for r in pres for v in r['viol']]
    pristine_execs = sum(1 for r in pres if r['status'] in ('interrupted', 'swallowed'))
    warm = c19.warmup(R)
    if warm <= 0:
        raise core.HarnessError("opcode warm-up saw zero events")
    # candidate pool: POOL*n generated cases are looked at cheaply (reference run only); the n cases to explore are
    # those that reach package lines the others do not, plus the first ones in index order
    pool = POOL[tier] * n
    chunks = [(R, seed, list(range(c, pool, 64)), tier) for c in range(64)]
    probes = sorted((p for ch in core.fork_map(_probe, chunks, timeout=CASE_TIMEOUT[tier], what='C19 pool chunk')
                     for p in ch), key=lambda p: p['idx'])
    chosen, novel, coin = c19.select_cases(probes, n)
    coin_pool = set()
    coin_chosen = set()
    chosen_set = set(chosen)
    for p in probes:
        coin_pool |= (p.get('coin') or set())
        if p['idx'] in chosen_set:
            coin_chosen |= (p.get('coin') or set())
    coin_kinds = {}
    for f in coin_chosen:
        coin_kinds[f[0]] = coin_kinds.get(f[0], 0) + 1
    n_solved = sum(1 for i in chosen if i % 6 == 4)
    pool_lines = set()
    for p in probes:
        pool_lines |= p['lines']
    # longest counts first (better packing of the workers); results are put back into index order
    tprobe = {p['idx']: p['T'] for p in probes}
    tasks = [(R, seed, i, tier) for i in sorted(chosen, key=lambda i: (-tprobe.get(i, 0), i))]
    # the probes (per-line hit counts of thousands of candidates) are no longer needed: every case child is forked
    # from this process, and a fat parent makes every fork -- and every fork-at-instant below it -- slower
    del probes
    import gc       # pylint: disable=import-outside-toplevel
    gc.collect()
    results = sorted(core.fork_map(_work, tasks, timeout=CASE_TIMEOUT[tier], what='C19 case'),
                     key=lambda r: r['idx'])

    execs = steps = explored = exhaustive = 0
    keys = set()
    probes = {}
    faults = {}
    unexplored = {}
    per_rule = {}
    ref_sites = {}
    inj_sites = {}
    viols = []
    samples = []
    digest_src = []
    for r in results:
        execs += r['execs']
        steps += r['steps']
        digest_src.append((r['idx'], r['T'], r['execs'], r['why'], len(r['viol']), sorted(r['probes'].items()),
                           r.get('outcome_hash')))
        pr = per_rule.setdefault(r['rule'], dict(cases=0, explored=0, execs=0))
        pr['cases'] += 1
        pr['execs'] += r['execs']
        if not r['explored']:
            unexplored[r['why']] = unexplored.get(r['why'], 0) + 1
            continue
        explored += 1
        pr['explored'] += 1
        exhaustive += 1 if r['exhaustive'] else 0
        keys |= r['keys']
        core.merge_counts(probes, r['probes'])
        core.merge_counts(faults, r['faults'])
        ref_sites.setdefault(r['rule'], set()).update(r['ref_sites'])
        inj_sites.setdefault(r['rule'], set()).update(r['inj_sites'])
        viols.extend(r['viol'])
        if r['sample'] and len(samples) < 3 and (len(samples) == 0 or r['idx'] % 7 == 3):
            samples.append(r['sample'])
    if not samples:
        for r in results:
            if r['sample']:
                samples.append(r['sample'])
                break

    # violations -> groups by signature (one replay per signature, the earliest case, the smallest k)
    viols.extend(pristine_viols)
    execs += pristine_execs
    faults['line/raise/api-first-count-of-process'] = pristine_execs
    cands = {}
    for v in viols:
        cands.setdefault(json.dumps(c19.signature(v), sort_keys=True), []).append(v)
    groups = {}
    history_dependent = []
    for sig, vs in sorted(cands.items())[:8]:
        # a violation counts only if the interrupted execution shows it when it is the first interrupted count of its
        # process; up to six executions per signature (from different cases where possible) are tried
        vs.sort(key=lambda v: (v['idx'], v['k']))
        tries = []
        seen_idx = set()
        for v in vs:
            if v['idx'] not in seen_idx or len(tries) < 2:
                tries.append(v)
                seen_idx.add(v['idx'])
            if len(tries) >= 6:
                break
        for v in tries:
            try:
                ok = core.fork_call(c19.confirm_pristine, (R, seed, v, tier), timeout=600, what='C19 confirm')
            except core.ChildFailed:
                ok = True      # let the strict replay decide
            if ok:
                groups[sig] = v
                break
        else:
            v = tries[0]
            msg = ("NOTE C19: %d interrupted executions show [%s] only after other interrupted counts ran in the same "
                   "process (first: case %d, %s event %d); alone in a fresh process they do not -- history dependence "
                   "is C20's subject, not a C19 verdict" % (len(vs), sig[:160], v['idx'], v['event'], v['k']))
            print(msg)
            history_dependent.append(msg)
    out_groups = []
    seen_final = set()
    for sig, v in sorted(groups.items()):
        try:
            rep = core.fork_call(c19.minimise, (R, seed, v, tier), timeout=600, what='C19 minimise')
        except core.ChildFailed as e:
            print("NOTE minimisation failed (%s); reporting the unminimised case" % str(e)[:200])
            _, o, text, raw, _ = c19.make_case(seed, v['idx'], tier)
            rep = c19.replay_object(R, seed, v, text, raw, o)
        vv = rep['violation']
        fsig = core.digest(c19.signature(vv))
        if fsig in seen_final:
            continue
        seen_final.add(fsig)
        out_groups.append(dict(signature=c19.signature(vv),
                               vclass=[vv['cls'], vv.get('what'), vv.get('exc'), vv.get('frame')],
                               replay=rep, run="%d-%s%d-%s" % (v['idx'], rep['fault']['event'][0], rep['fault']['k'], fsig[:8]),
                               describe="%s in %s: %s %s at %s event k=%d (%s), rule %s" % (
                                   vv['cls'], vv.get('what'), vv.get('exc') or '', (vv.get('msg') or '')[:80],
                                   rep['fault']['event'], rep['fault']['k'], rep['fault']['site'],
                                   rep['case']['options'].get('rule'))))
    code, nviol, known, notes = report.conclude('C19', seed, R.path, out_groups)

    wall = time.time() - t0
    total_ref = sum(len(s) for s in ref_sites.values())
    total_inj = sum(len(inj_sites.get(k, set()) & s) for k, s in ref_sites.items())
    cov = dict(
        evaluations=execs,
        distinct_nontrivial=len(keys),
        rule=RULE_TEXT,
        samples=samples,
        exhaustive=False,
        candidate_pool=pool, cases_chosen_for_new_line_coverage=len(novel),
        cases_chosen_for_new_numeric_coincidence=len(coin), cases_solved_for_coincidences=n_solved,
        coincidence_features=dict(distinct_in_pool=len(coin_pool), distinct_in_chosen_cases=len(coin_chosen),
                                  by_kind_in_chosen_cases=coin_kinds,
                                  note="(kind, rule, action tag, candidate code) tuples seen in the uninterrupted "
                                       "records: a vote exactly on / one raw unit off the quota, two consecutive "
                                       "actions with identical candidate state, ties among leaders or trailers, a "
                                       "transfer of exactly zero"),
        package_lines_executed_by_pool=len(pool_lines),
        cases=len(results), cases_explored=explored, cases_exhaustive_at_line_level=exhaustive,
        unexplored=unexplored,
        per_rule=per_rule,
        fault_kinds_fired=faults,
        probes=probes,
        crash_point_coverage=dict(
            executed_package_lines=total_ref, lines_with_an_injection=total_inj,
            ratio=round(total_inj / total_ref, 4) if total_ref else 0.0,
            per_rule={k: [len(inj_sites.get(k, set()) & s), len(s)] for k, s in sorted(ref_sites.items())}),
        slowest_case_wall_s=round(max((r.get('wall', 0.0) for r in results), default=0.0), 1),
        sweep_crosschecks=sum(r.get('crosschecked', 0) for r in results),
        simulated_steps=steps,
        simulated_runs=execs,
        runs_per_hour=int(execs / wall * 3600) if wall > 0 else 0,
        steps_per_hour=int(steps / wall * 3600) if wall > 0 else 0,
        simulated_time_unit="line/opcode trace events in package code inside Election.count()",
        violation_signatures=len(groups), raw_violations=len(viols), known_findings_matched=known,
        history_dependent_signatures_dropped=len(history_dependent),
        run_digest=core.digest(digest_src),
        components=dict(real=REAL, stub=STUB),
        tree=R.tree, workers=core.nproc(),
    )
    if explored == 0 or execs == 0:
        if code == core.EXIT_VIOLATION:
            # a tree on which the pristine arm found a reproducible violation but every case was dropped (e.g. because
            # its references are unstable) still ends with the verdict; there is no coverage to write evidence about
            print("C19 %s: every case was dropped (%s); the verdict above rests on the pristine arm" % (tier, unexplored))
            sys.stdout.flush()
            return code
        raise core.HarnessError("zero work done: %s" % unexplored)
    ev = dict(property_id='C19', tier=tier, seed=seed, level='fault_enumeration', coverage=cov,
              assumptions=[
                  "SIGINT surfaces only at instruction boundaries of the main thread; line and opcode trace events "
                  "are a superset of the eval-breaker checks at which CPython runs the handler",
                  "interrupts swallowed by the interpreter itself (generator finalisation) count as 'no interrupt'",
                  "the count is deterministic for fixed text and options (checked: the reference is computed twice)",
                  "interrupts during parsing, construction and rendering are outside the statement"],
              wall_s=round(wall, 2), violations=nviol)
    core.write_evidence('C19', ev)
    print("C19 %s: %d cases (%d explored, %d exhaustive), %d interrupted executions, %d distinct keys, "
          "%d/%d executed lines injected, %d raw violations in %d signatures, %.1fs" % (
              tier, len(results), explored, exhaustive, execs, len(keys), total_inj, total_ref, len(viols),
              len(groups), wall))
    if unexplored:
        print("  unexplored: %s" % unexplored)
    sys.stdout.flush()
    return code


def replay(R, obj):
    "re-execute a replay file; exit 1 and print the class iff the violation shows again"
    viols, status = core.fork_call(c19.run_replay, (R, obj), timeout=600, what='C19 replay')
    if viols is None:
        print("REPLAY unusable: %s" % status)
        return core.EXIT_HARNESS
    want = obj.get('violation', {})
    for v in viols:
        print("REPLAY-CLASS %s" % json.dumps([v['cls'], v.get('what'), v.get('exc'), v.get('frame')]))
        if not os.environ.get('VERIF_REPLAY_QUIET'):
            print("  %s" % json.dumps({k: v.get(k) for k in ('cls', 'what', 'exc', 'msg', 'frame', 'line_text',
                                                              'index', 'got', 'want', 'site', 'header')}))
    if viols:
        same = any(v['cls'] == want.get('cls') and v.get('what') == want.get('what') for v in viols)
        print("REPLAY property=C19 reproduced=%s status=%s" % (same, status))
        return core.EXIT_VIOLATION
    print("REPLAY property=C19 no violation (status %s)" % status)
    return core.EXIT_OK
