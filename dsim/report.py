"""Turning raw violations into replay files, VIOLATION / KNOWN-FINDING lines and exit codes."""

import json
import os
import subprocess
import sys

from . import findings
from .core import EXIT_OK, EXIT_VIOLATION, EXIT_HARNESS, VERIF_DIR, write_replay


def verify_in_fresh_interpreter(prop, path, repo_path, want_class, hashseed='0'):
    """replay a file in a fresh interpreter; True iff the same violation class shows again"""
    env = dict(os.environ)
    env['PYTHONHASHSEED'] = hashseed
    env['VERIF_REPLAY_QUIET'] = '1'
    cmd = [sys.executable, os.path.join(VERIF_DIR, 'check.py'), prop, '--replay', path, '--repo', repo_path]
    try:
        p = subprocess.run(cmd, env=env, capture_output=True, text=True, timeout=600, check=False)
    except subprocess.TimeoutExpired:
        return False, 'replay timed out'
    classes = []
    for line in p.stdout.splitlines():
        if line.startswith('REPLAY-CLASS '):
            classes.append(line[len('REPLAY-CLASS '):].strip())
    ok = p.returncode == EXIT_VIOLATION and json.dumps(want_class) in classes
    return ok, "exit %d classes %s" % (p.returncode, classes[:4])


def conclude(prop, seed, repo_path, groups, soft_unreproducible=False):
    """groups: list of dict(signature, vclass, replay (object), run, describe)

    Prints KNOWN-FINDING / VIOLATION / HARNESS-ERROR lines, writes replay files, returns
    (exit code, n_violations, known list, notes).
    """
    entries = findings.load()
    code = EXIT_OK
    nviol = 0
    known = []
    notes = []
    for g in groups:
        ent = findings.match(prop, g['signature'], entries)
        if ent is not None:
            print("KNOWN-FINDING: property=%s %s" % (prop, ent.get('description', json.dumps(g['signature']))))
            known.append(ent.get('id') or ent.get('description'))
            continue
        path = write_replay(prop, seed, g['run'], g['replay'])
        ok, how = verify_in_fresh_interpreter(prop, path, repo_path, g['vclass'])
        if ok:
            print("VIOLATION property=%s replay=%s" % (prop, path))
            print("  %s" % g['describe'])
            nviol += 1
            code = EXIT_VIOLATION
        elif soft_unreproducible:
            msg = "NOTE %s: outcome not reproducible in a fresh process (%s); not a %s verdict: %s" % (
                prop, how, prop, g['describe'])
            print(msg)
            notes.append(msg)
            try:
                os.unlink(path)
            except OSError:
                pass
        else:
            print("HARNESS-ERROR property=%s replay %s did not reproduce in a fresh interpreter (%s): %s" % (
                prop, path, how, g['describe']))
            if code == EXIT_OK:
                code = EXIT_HARNESS
    return code, nviol, known, notes
