"""Determinism and sensitivity self-tests (DESIGN section 11).

check.py selftest quick     determinism of all three engines (same seed: 16 workers here, 3 workers in a fresh
                            interpreter with PYTHONHASHSEED=0, 1 worker with a random hash seed) + a few planted
                            defects per engine
check.py selftest thorough  every planted defect, each also run against the other two checks (isolation), and the
                            equivalent mutants

Planted defects are textual patches applied to a scratch copy of the tree in a temporary directory outside
/repo and /verif (removed afterwards); the quick check is run on the copy with --repo.
"""

import json
import os
import shutil
import subprocess
import sys
import tempfile
import time

from . import core

# (id, property it must break, file, old text, new text, in quick selftest?)
PLANTED = [
    # ---- C19
    ('c19-append-before-snapshot', 'C19', 'droop/record.py',
     "        A['cstate'] = C.cState()  # variable candidate state\n",
     "        self['actions'].append(A)\n        A['cstate'] = C.cState()  # variable candidate state\n", True),
    ('c19-filled-too-early', 'C19', 'droop/record.py',
     "        E = self.E\n        self['title'] = E.title\n",
     "        E = self.E\n        self.filled = True\n        self['title'] = E.title\n", True),
    ('c19-report-reads-elected', 'C19', 'droop/record.py',
     "        if intr:\n            report.append(",
     "        report.append(\"\\tWinners: %d\\n\" % len(E.elected))\n        if intr:\n            report.append(", False),
    ('c19-main-dump-without-intr', 'C19', 'Droop.py',
     "        ereport += E.dump(intr)\n", "        ereport += E.dump()\n", False),
    ('c19-revert-F4', 'C19', 'droop/record.py',
     "        if not self.filled:     # count interrupted before the header was (completely) filled\n"
     "            self._fill()\n        report = []\n",
     "        report = []\n", False),
    ('c19-revert-F8', 'C19', 'droop/rules/meek.py',
     '        return "%s Parametric (omega = 1/10^%d)" % (name, int(self.omega10))\n',
     '        return "%s Parametric (omega = 1/10^%d)" % (name, self.omega10)\n', False),
    ('c19-main-catches-exception-only', 'C19', 'Droop.py',
     "    except KeyboardInterrupt:\n        intr = True\n",
     "    except ArithmeticError:\n        intr = True\n", False),
    # ---- C16
    ('c16-seats-not-checked', 'C16', 'droop/profile.py',
     "        if not digits.match(tok):\n            raise ElectionProfileError('bad second blt item",
     "        if False:\n            raise ElectionProfileError('bad second blt item", True),
    ('c16-getcid-zero', 'C16', 'droop/profile.py',
     "            if 0 < nick <= self.nCand:\n", "            if 0 <= nick <= self.nCand:\n", True),
    ('c16-bltread-catches-oserror-only', 'C16', 'droop/profile.py',
     "        except Exception as emsg:\n            raise ElectionProfileError(\"can't open ballot file",
     "        except OSError as emsg:\n            raise ElectionProfileError(\"can't open ballot file", False),
    ('c16-no-duplicate-check', 'C16', 'droop/profile.py',
     "            for cid in bl.ranking:\n                if cid in d:\n",
     "            for cid in bl.ranking:\n                if False:\n", False),
    ('c16-revert-F1', 'C16', 'droop/profile.py',
     "                raise ElectionProfileError('bad blt file: unexpected end-of-file near candidate name #%d; "
     "expected quoted string' % cid)\n",
     "                raise ElectionProfileError('bad blt item \"%s\" near candidate name #%d; expected quoted string' "
     "% (name, cid))\n", False),
    ('c16-revert-F2', 'C16', 'droop/profile.py',
     "                if wd > self.nCand:\n", "                if False:\n", False),
    ('c16-revert-F3', 'C16', 'droop/profile.py',
     "        except ValueError as err:   # int() refuses digit strings beyond sys.get_int_max_str_digits()\n"
     "            raise ElectionProfileError('bad blt file: %s' % err)\n", "", False),
    ('c16-revert-F5', 'C16', 'droop/profile.py',
     "                rank[:] = [cid for cid in rank if cid not in profile.withdrawn]\n",
     "                for cid in set(rank):\n                    if cid in profile.withdrawn:\n"
     "                        rank.remove(cid)\n", False),
    ('c16-tokenizer-stalls', 'C16', 'droop/profile.py',
     "                while not bid.endswith(')'):\n                    bid += ' ' + next(blt)\n",
     "                while not bid.endswith(')'):\n                    bid += ' ' + next(blt, '')\n", False),
    # ---- C20
    ('c20-no-stats-reset', 'C20', 'droop/values/guarded.py',
     "        cls.maxDiff = 0\n        cls.minDiff = cls.__scale * 100\n",
     "        if not hasattr(cls, 'maxDiff'):\n            cls.maxDiff = 0\n            cls.minDiff = cls.__scale * 100\n",
     True),
    ('c20-options-default-shared', 'C20', 'droop/options.py',
     "        self.default = dict()\n", "        self.default = Options._shared\n", True),
    ('c20-rational-dps-cached', 'C20', 'droop/values/rational.py',
     "        cls._dps = 10 ** cls.dp                            # display scaler\n",
     "        if cls._dps is None:\n            cls._dps = 10 ** cls.dp                            # display scaler\n",
     False),
    ('c20-fixed-display-sticky', 'C20', 'droop/values/fixed.py',
     "        cls.display = int(display)\n",
     "        if cls.display is None or int(display) > cls.display:\n            cls.display = int(display)\n", False),
]

# extra text a planted defect needs elsewhere in the same file (appended verbatim)
EXTRA = {
    'c20-options-default-shared': ("droop/options.py", "        self.allowed = dict()\n",
                                   "        self.allowed = dict()\n\n    _shared = dict()\n"),
}

# equivalent mutants: the check must stay at exit 0
EQUIVALENT = [
    # reverting the F6 repair is no C16 defect any more: since F7 the OverflowError of a 256-candidate file surfaces
    # as ElectionProfileError (a valid file refused: C15's subject, which this family does not decide)
    ('eq-revert-F6-after-F7', 'C16', 'droop/profile.py',
     "'B' if profile.nCand <= 255 else", "'B' if profile.nCand <= 256 else"),
    # sorting the shared profile's ballot lines in place changes no record (C10: the record does not depend on the
    # order of the ballot lines), so it is no C20 defect
    ('eq-sorts-profile-in-place', 'C20', 'droop/election.py',
     "        self.ballots = list()\n        for bl in electionProfile.ballotLines:\n",
     "        self.ballots = list()\n        electionProfile.ballotLines.sort(key=lambda b: -b.multiplier)\n"
     "        for bl in electionProfile.ballotLines:\n"),
    ('eq-fixed-scaledr-conditional', 'C20', 'droop/values/fixed.py',
     "        cls.__scaledr = cls.__scaledd // 2\n",
     "        if cls.display < cls.precision:\n            cls.__scaledr = cls.__scaledd // 2\n"),
    ('eq-record-fill-order', 'C19', 'droop/record.py',
     "        self['title'] = E.title\n        self['droop_name'] = common.droopName\n",
     "        self['droop_name'] = common.droopName\n        self['title'] = E.title\n"),
    ('eq-interrupt-marker-reworded', 'C19', 'droop/election.py',
     "            self.log('** count interrupted; this round is incomplete **')\n            self.intr_logged = True\n"
     "        return self.erecord.report(intr)",
     "            self.log('** count stopped by the user; this round is incomplete **')\n"
     "            self.intr_logged = True\n        return self.erecord.report(intr)"),
    ('eq-json-indent', 'C19', 'droop/record.py',
     "return json_.dumps(self, cls=ValueEncoder, sort_keys=True, indent=2)",
     "return json_.dumps(self, cls=ValueEncoder, sort_keys=True, indent=4)"),
    ('eq-intr-flag-renamed', 'C19', 'droop/election.py', "intr_logged", "markerLogged"),
    ('eq-count-via-helper', 'C19', 'droop/election.py',
     "        ##\n        self.rule.count()   ### count the election ###\n        ##\n",
     "        self._runRule()\n"),
    ('eq-dump-extra-column', 'C20', 'droop/record.py',
     "            r = [str(item) for item in r]\n", "            r = [str(item) for item in r] + ['.']\n"),
    ('eq-profile-error-wording', 'C16', 'droop/profile.py',
     "raise ElectionProfileError('bad blt file: unexpected end-of-file')",
     "raise ElectionProfileError('bad blt file: premature end of file')"),
]


def scratch_copy(repo_path):
    "copy of the tree's sources in a temporary directory (caller removes it)"
    d = tempfile.mkdtemp(prefix='droop-selftest-')
    shutil.copytree(os.path.join(repo_path, 'droop'), os.path.join(d, 'droop'),
                    ignore=shutil.ignore_patterns('__pycache__', '*.pyc'))
    shutil.copy(os.path.join(repo_path, 'Droop.py'), os.path.join(d, 'Droop.py'))
    os.makedirs(os.path.join(d, 'test'))
    shutil.copytree(os.path.join(repo_path, 'test', 'blt'), os.path.join(d, 'test', 'blt'))
    return d


def apply(d, fname, old, new):
    "textual patch; False if the anchor is not there (the tree changed: the planted defect is skipped)"
    p = os.path.join(d, fname)
    with open(p, encoding='utf-8') as f:
        s = f.read()
    if old not in s:
        return False
    if old == 'intr_logged':
        s = s.replace(old, new)         # a rename: every occurrence
    else:
        s = s.replace(old, new, 1)
    if new == "        self._runRule()\n":
        s = s.replace("    def postCheck(self):", "    def _runRule(self):\n        \"count through a helper\"\n"
                      "        self.rule.count()\n\n    def postCheck(self):", 1)
    with open(p, 'w', encoding='utf-8') as f:
        f.write(s)
    return True


OUT = None      # temporary output directory of the sub-runs (evidence, replays)


def run_check(prop, tier, repo_path, env_extra=None, timeout=3600):
    "run check.py in a fresh interpreter; (exit code, stdout)"
    env = dict(os.environ)
    env.pop('PYTHONHASHSEED', None)
    env['VERIF_OUT'] = OUT
    if env_extra:
        env.update(env_extra)
    cmd = [sys.executable, os.path.join(core.VERIF_DIR, 'check.py'), prop, tier, '--repo', repo_path]
    try:
        p = subprocess.run(cmd, env=env, capture_output=True, text=True, timeout=timeout, check=False)
    except subprocess.TimeoutExpired as e:
        return 124, "sub-run timed out after %ss\n%s" % (timeout, (e.stdout or b'')[-1000:] if e.stdout else '')
    return p.returncode, p.stdout + p.stderr


SMALL = {'VERIF_C19_CASES': '66', 'VERIF_C16_SEQ': '120000', 'VERIF_C20_SESSIONS': '8000'}


def planted(R, thorough):
    "sensitivity: every planted defect must make its check exit 1 (and, thorough, leave the other two at 0)"
    failures = []
    report = []
    if True:
        for (mid, prop, fname, old, new, in_quick) in PLANTED:
            if not thorough and not in_quick:
                continue
            d = scratch_copy(R.path)
            try:
                ok = apply(d, fname, old, new)
                if ok and mid in EXTRA:
                    ok = apply(d, *EXTRA[mid])
                if not ok:
                    report.append((mid, prop, 'skipped: anchor not found in this tree'))
                    continue
                t0 = time.time()
                code, out = run_check(prop, 'quick', d, SMALL)
                report.append((mid, prop, 'exit %d in %.0fs' % (code, time.time() - t0)))
                if code != core.EXIT_VIOLATION:
                    failures.append("%s: %s check exit %d, expected 1\n%s" % (mid, prop, code, out[-1500:]))
                if thorough:
                    for other in ('C16', 'C19', 'C20'):
                        if other == prop:
                            continue
                        c2, o2 = run_check(other, 'quick', d, SMALL)
                        report.append((mid, other, 'isolation exit %d' % c2))
                        if c2 != core.EXIT_OK:
                            failures.append("%s: unrelated check %s exit %d, expected 0\n%s" % (mid, other, c2, o2[-1500:]))
            finally:
                shutil.rmtree(d, ignore_errors=True)
        if thorough:
            for (mid, prop, fname, old, new) in EQUIVALENT:
                d = scratch_copy(R.path)
                try:
                    if not apply(d, fname, old, new):
                        report.append((mid, prop, 'skipped: anchor not found in this tree'))
                        continue
                    code, out = run_check(prop, 'quick', d, SMALL)
                    report.append((mid, prop, 'equivalent mutant: exit %d' % code))
                    if code != core.EXIT_OK:
                        failures.append("%s: equivalent mutant made %s exit %d\n%s" % (mid, prop, code, out[-1500:]))
                finally:
                    shutil.rmtree(d, ignore_errors=True)
    return failures, report


def determinism(R):
    "same seed, three different execution environments: the run digests must be identical"
    failures = []
    report = []
    small = {'VERIF_C19_CASES': '44', 'VERIF_C16_SEQ': '40000', 'VERIF_C20_SESSIONS': '3000', 'VERIF_C20_NOGRID': '1'}
    if True:
        for prop in ('C19', 'C16', 'C20'):
            digests = []
            for envx in ({'VERIF_WORKERS': '16', 'PYTHONHASHSEED': '0'},
                         {'VERIF_WORKERS': '3', 'PYTHONHASHSEED': '0'},
                         {'VERIF_WORKERS': '1' if prop == 'C16' else '5', 'PYTHONHASHSEED': 'random'}):
                e = dict(small)
                e.update(envx)
                code, out = run_check(prop, 'quick', R.path, e)
                if code != core.EXIT_OK:
                    failures.append("determinism %s %s: exit %d\n%s" % (prop, envx, code, out[-1000:]))
                    continue
                with open(os.path.join(OUT, 'evidence', prop + '.json'), encoding='utf-8') as f:
                    ev = json.load(f)
                digests.append(ev['coverage']['run_digest'])
            report.append((prop, digests))
            if len(set(digests)) != 1:
                failures.append("determinism %s: digests differ %s" % (prop, digests))
    return failures, report


def run(R, tier, seed):      # pylint: disable=unused-argument
    "selftest entry"
    global OUT      # pylint: disable=global-statement
    t0 = time.time()
    OUT = tempfile.mkdtemp(prefix='droop-selftest-out-')
    try:
        only = os.environ.get('VERIF_SELFTEST_ONLY', '')
        f1, r1 = ([], []) if only == 'planted' else determinism(R)
        for prop, digs in r1:
            print("determinism %s: %s" % (prop, digs))
        sys.stdout.flush()
        f2, r2 = ([], []) if only == 'determinism' else planted(R, tier == 'thorough')
    finally:
        shutil.rmtree(OUT, ignore_errors=True)
    for row in r2:
        print("planted %-36s %-4s %s" % row)
    fails = f1 + f2
    for f in fails:
        print("SELFTEST-FAILURE %s" % f)
    print("selftest %s: %d failures, %.0fs" % (tier, len(fails), time.time() - t0))
    return core.EXIT_HARNESS if fails else core.EXIT_OK


def replay(R, obj):      # pylint: disable=unused-argument
    "not applicable"
    return core.EXIT_HARNESS
