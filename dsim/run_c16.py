"""C16 check driver."""

import json
import os
import sys
import time

from . import c16, core, report

PARAMS = {
    'quick': dict(gen_bases=120, size_cap=3072, enum_cap=420, enum_bases=60, sequences=300_000, chunk=5000, realfs=0.002, scale_bases=16),
    'thorough': dict(gen_bases=1500, size_cap=3072, enum_cap=900, enum_bases=700, sequences=4_000_000, chunk=20000,
                     realfs=0.02, scale_bases=120),
}

REAL = ["droop.profile.ElectionProfile: __init__, bltRead (real open/read/decode call sequence), tokenizer, parser, "
        "option handlers, BallotLine, __validate", "droop.election.Election.__init__ of all 11 rules with "
        "values.*.initialize and Options"]
STUB = ["the file system: SimFS behind droop.profile.open (real io.TextIOWrapper/utf-8-sig decoder over stored bytes; "
        "open() and read() can raise OSError)", "sys.stdout sink"]

RULE_TEXT = ("bases: the test/blt corpus files <= size_cap plus seeded generated valid files (all option syntaxes, "
             "layouts, 255/256/257-candidate files). enumeration arm: for every base <= enum_cap bytes every "
             "truncation point, every single-byte drop, every single-bit flip, every single-token drop / duplication "
             "/ adjacent swap, every OS error at open/read. sequence arm: seeded sequences of 1-6 mixed storage "
             "faults (truncate, drop, dup, swap, bitflip, bytesub, zero, fill, amplify, stale-tail/head of another "
             "file, insert, BOM/UTF-16/CR/LF damage, foreign token soup, empty) x optional OS error x entry point "
             "(path= through SimFS, data= decoded text). evaluations = faulted reads judged by the oracle. A key is "
             "(fault-kind multiset, OS fault, outcome class, normalised error message, raising parser function:line); "
             "non-trivial = the stored bytes differ from the base or an OS fault fired; distinct_nontrivial = number "
             "of distinct keys. regress arm: the reduced failing inputs of past findings and relatives, unfaulted and with "
             "every systematic single fault. soup arm (exhaustive): every sequence of 0-4 tokens over an 18-token BLT "
             "alphabet.")


def _work(task):
    kind = task[0]
    if kind == 'opt':
        return _work_optimised(task)
    if kind == 'enum':
        _, R, seed, name, base, part, nparts = task
        return c16.work_enumerate(R, seed, name, base, part, nparts)
    if kind == 'seq':
        _, R, seed, bases, first, count, realfs = task
        return c16.work_sequences(R, seed, bases, first, count, realfs)
    if kind == 'bulk':
        _, R, seed, j = task
        return c16.work_bulk(R, seed, j)
    if kind == 'soup':
        _, R, part, nparts = task
        return c16.work_soups(R, part, nparts)
    if kind == 'scale':
        _, R, seed, name, base = task
        return c16.work_scale(R, seed, name, base)
    _, R, bases = task
    return c16.work_faultfree(R, bases)


_OPT_CODE = """
import pickle, sys
sys.path.insert(0, %r)
sys.dont_write_bytecode = True
from dsim import core, run_c16
R = core.bind_repo(%r)
with open(sys.argv[1], 'rb') as f:
    t = pickle.load(f)
r = run_c16._work((t[0], R) + tuple(t[1:]))
for v in r['viol']:
    v['optimised'] = True
r['probes']['reads_in_optimised_interpreter'] = r['evals']
r['optimised_flag'] = sys.flags.optimize
with open(sys.argv[2], 'wb') as f:
    pickle.dump(r, f)
"""


def _work_optimised(task):
    """environment fault: the same work in an interpreter started with -O (PYTHONOPTIMIZE=1), where every `assert` of
    the package is compiled away -- a check written as an assert stops checking.  task = ('opt', R, inner task sans R)"""
    import pickle       # pylint: disable=import-outside-toplevel
    import shutil       # pylint: disable=import-outside-toplevel
    import subprocess   # pylint: disable=import-outside-toplevel
    import tempfile     # pylint: disable=import-outside-toplevel
    _, R, inner = task
    d = tempfile.mkdtemp(prefix='droop-c16-opt-')
    try:
        with open(os.path.join(d, 'in'), 'wb') as f:
            pickle.dump(inner, f)
        env = dict(os.environ, PYTHONHASHSEED='0', PYTHONDONTWRITEBYTECODE='1')
        env.pop('PYTHONOPTIMIZE', None)
        p = subprocess.run([sys.executable, '-O', '-c', _OPT_CODE % (core.VERIF_DIR, R.path),
                            os.path.join(d, 'in'), os.path.join(d, 'out')],
                           env=env, capture_output=True, text=True, timeout=1500, check=False)
        if p.returncode != 0 or not os.path.exists(os.path.join(d, 'out')):
            raise core.HarnessError("optimised-interpreter arm failed (exit %d): %s" % (
                p.returncode, (p.stderr or p.stdout)[-600:]))
        with open(os.path.join(d, 'out'), 'rb') as f:
            r = pickle.load(f)
        if not r.get('optimised_flag'):
            raise core.HarnessError("optimised-interpreter arm did not run under -O")
        return r
    finally:
        shutil.rmtree(d, ignore_errors=True)


def run(R, tier, seed):
    t0 = time.time()
    P = dict(PARAMS[tier])
    if os.environ.get('VERIF_C16_SEQ'):
        P['sequences'] = int(os.environ['VERIF_C16_SEQ'])
    bases = c16.gen_bases(R, seed, tier, P['gen_bases'], P['size_cap'])
    tasks = [('free', R, bases)]
    arm = ['free']
    enum_bases = [b for b in bases if len(b[1]) <= P['enum_cap']][:P['enum_bases']]
    for name, base in enum_bases:
        nparts = max(1, (len(base) * 11) // 6000)
        for part in range(nparts):
            tasks.append(('enum', R, seed, name, base, part, nparts))
            arm.append('enum')
    # past failing inputs and relatives: unfaulted through the oracle and every systematic single fault around them
    regress = [('regress/' + n, t.encode('utf-8', 'surrogatepass')) for n, t in c16.REGRESSION_INPUTS]
    tasks.append(('free', R, regress))
    arm.append('regress')
    for name, base in regress:
        if len(base) <= 600:
            tasks.append(('enum', R, seed, name, base, 0, 1))
            arm.append('regress')
    # environment fault: the regression inputs and the first enumerated bases once more, each with every systematic
    # single fault, in an interpreter started with -O
    tasks.append(('opt', R, ('free', regress)))
    arm.append('optimised')
    for name, base in [b for b in regress if len(b[1]) <= 600][:P.get('opt_regress', 40)] + \
            [b for b in enum_bases if len(b[1]) <= 500][:P.get('opt_bases', 10)]:
        tasks.append(('opt', R, ('enum', seed, name, base, 0, 1)))
        arm.append('optimised')
    for part in range(16):
        tasks.append(('soup', R, part, 16))
        arm.append('soup')
    for j in range(4):
        tasks.append(('bulk', R, seed, j))
        arm.append('bulk')
    small = sorted((b for b in bases if 60 <= len(b[1]) <= 700 and b[0].startswith('gen/')), key=lambda b: b[0])
    for name, base in small[:P['scale_bases']]:
        tasks.append(('scale', R, seed, name, base))
        arm.append('scale')
    nseq = P['sequences']
    for first in range(0, nseq, P['chunk']):
        tasks.append(('seq', R, seed, bases, first, min(P['chunk'], nseq - first), P['realfs']))
        arm.append('seq')
    results = core.fork_map(_work, tasks, timeout=1800.0, what='C16 chunk')

    total = c16.new_acc()
    per_arm = {}
    samples = []
    stub_dis = []
    cpu_max = 0.0
    for a, r in zip(arm, results):
        pa = per_arm.setdefault(a, dict(evaluations=0, outcomes={}, violations=0))
        pa['evaluations'] += r['evals']
        core.merge_counts(pa['outcomes'], r['outcomes'])
        pa['violations'] += len(r['viol'])
        total['evals'] += r['evals']
        total['bytes'] += r['bytes']
        total['steps'] += r['steps']
        core.merge_counts(total['outcomes'], r['outcomes'])
        core.merge_counts(total['faults'], r['faults'])
        core.merge_counts(total['sites'], r['sites'])
        core.merge_counts(total['probes'], r['probes'])
        total['keys'] |= r['keys']
        total['viol'].extend(r['viol'])
        stub_dis.extend(r.get('stub_disagreements', []))
        cpu_max = max(cpu_max, r.get('cpu_max', 0.0))
        if r['samples'] and len(samples) < 4 and (a == 'seq' or len(samples) < 2):
            samples.extend(r['samples'][:1])
    if stub_dis:
        # the stub and the real file system disagree: the harness is wrong, not the package
        raise core.HarnessError("SimFS disagrees with the real file system on %d reads, e.g. %s" % (
            len(stub_dis), json.dumps(stub_dis[0])[:400]))
    free = per_arm['free']
    nfree = free['evaluations']
    acc_free = free['outcomes'].get('accepted', 0)
    if nfree == 0 or acc_free < 0.9 * nfree:
        # an unfaulted valid file that is not accepted is reported below as a violation only if it broke the
        # oracle; a low acceptance rate as such means the workload is broken
        if not [v for v in total['viol'] if not v['faults'] and not v.get('io_fault')]:
            raise core.HarnessError("fault-free arm: only %d of %d base reads accepted" % (acc_free, nfree))

    # raise-site probes: every `raise ElectionProfileError` line of profile.py, hit or not
    raise_sites = {}
    try:
        with open(os.path.join(R.path, 'droop', 'profile.py'), encoding='utf-8') as f:
            for ln, line in enumerate(f, 1):
                if 'raise ElectionProfileError' in line:
                    raise_sites[ln] = 0
    except OSError:
        pass
    for site, cnt in total['sites'].items():
        try:
            ln = int(site.rsplit(':', 1)[1])
        except ValueError:
            continue
        # the raise statement may span lines: attribute to the nearest raise line at or before ln
        cands = [x for x in raise_sites if x <= ln and ln - x <= 2]
        if cands:
            raise_sites[max(cands)] += cnt
    hit = sum(1 for v in raise_sites.values() if v)

    groups = {}
    for v in total['viol']:
        sig = json.dumps(c16.signature(v), sort_keys=True)
        g = groups.get(sig)
        if g is None or (len(v['faults']), v['nbytes']) < (len(g['faults']), g['nbytes']):
            groups[sig] = v
    out_groups = []
    for sig, v in sorted(groups.items())[:10]:
        try:
            rep = core.fork_call(c16.minimise, (R, seed, v), timeout=600, what='C16 minimise')
        except core.ChildFailed as e:
            print("NOTE minimisation failed (%s); reporting the unminimised case" % str(e)[:200])
            rep = c16.replay_object(R, seed, v)
        vv = rep['violation']
        out_groups.append(dict(signature=json.loads(sig), vclass=c16.vclass(v), replay=rep,
                               run=core.digest(json.loads(sig))[:10],
                               describe="%s %s %s at %s [%s]; base %s, faults %s io=%s" % (
                                   vv['cls'], vv.get('exc') or '', (vv.get('msg') or '')[:100], vv.get('frame'),
                                   (vv.get('line_text') or '')[:60], rep['base_name'],
                                   json.dumps(rep['faults'])[:160], rep.get('io_fault'))))
    code, nviol, known, notes = report.conclude('C16', seed, R.path, out_groups, soft_unreproducible=True)

    wall = time.time() - t0
    cov = dict(
        evaluations=total['evals'],
        distinct_nontrivial=len(total['keys']),
        rule=RULE_TEXT,
        samples=samples,
        exhaustive=False,
        arms=per_arm,
        bases=len(bases), bases_enumerated=len(enum_bases),
        enumeration_arm_exhaustive_per_base=True,
        outcomes=total['outcomes'],
        fault_kinds_fired=total['faults'],
        probes=total['probes'],
        raise_sites=dict(total=len(raise_sites), hit=hit,
                         never_hit_lines=sorted(k for k, v in raise_sites.items() if not v)),
        bytes_read=total['bytes'],
        scale_arm=dict(file_bytes=c16.SCALE_BYTES, cpu_limit_s=c16.CPU_LIMIT, slowest_read_cpu_s=round(cpu_max, 3)),
        simulated_steps_under_clock=total['steps'],
        simulated_runs=total['evals'],
        runs_per_hour=int(total['evals'] / wall * 3600) if wall > 0 else 0,
        simulated_time_unit="line trace events in package code while reading (budget 200*bytes+100000), measured on "
                            "a seeded sample; every read also runs under a wall-clock alarm that hands over to the "
                            "step budget",
        violation_signatures=len(groups), raw_violations=len(total['viol']), known_findings_matched=known,
        notes=notes,
        run_digest=core.digest([total['evals'], sorted(total['outcomes'].items()), sorted(total['faults'].items()),
                                len(total['keys']), sorted(total['sites'].items())]),
        components=dict(real=REAL, stub=STUB),
        tree=R.tree, workers=core.nproc(),
    )
    if total['evals'] == 0:
        raise core.HarnessError("zero work done")
    ev = dict(property_id='C16', tier=tier, seed=seed, level='fault_enumeration', coverage=cov,
              assumptions=[
                  "droop issues one open() and one unbounded read(); OS-level short reads are invisible to it, so "
                  "'short read' is modelled as short stored bytes (truncation)",
                  "SimFS returns a real io.TextIOWrapper, so decoding, BOM handling and newline translation are "
                  "CPython's own",
                  "strings far from any valid file are reached only through heavy damage and the token-soup "
                  "'foreign file' fault; this is sampling, not enumeration of all strings",
                  "the generator's intended election is never compared with the parse (that would be C15)"],
              wall_s=round(wall, 2), violations=nviol)
    core.write_evidence('C16', ev)
    print("C16 %s: %d bases (%d enumerated), %d evaluations (%s), %d distinct keys, raise sites hit %d/%d, "
          "%d raw violations in %d signatures, %.1fs" % (
              tier, len(bases), len(enum_bases), total['evals'],
              ", ".join("%s=%d" % kv for kv in sorted(total['outcomes'].items())), len(total['keys']), hit,
              len(raise_sites), len(total['viol']), len(groups), wall))
    sys.stdout.flush()
    return code


def replay(R, obj):
    "re-execute a replay file"
    viols, outcome, red = core.fork_call(c16.run_replay, (R, obj), timeout=600, what='C16 replay')
    for v in viols:
        print("REPLAY-CLASS %s" % json.dumps(c16.vclass(v)))
        if not os.environ.get('VERIF_REPLAY_QUIET'):
            print("  %s" % json.dumps(v))
    if red is not None and not os.environ.get('VERIF_REPLAY_QUIET'):
        print("  reduced form shows: %s" % json.dumps(red))
        try:
            import base64       # pylint: disable=import-outside-toplevel
            print("  reduced input: %r" % base64.b64decode(obj['reduced_b64'])[:300])
        except Exception:       # pylint: disable=broad-except
            pass
    if viols:
        print("REPLAY property=C16 reproduced outcome=%s" % outcome)
        return core.EXIT_VIOLATION
    print("REPLAY property=C16 no violation (outcome %s)" % outcome)
    return core.EXIT_OK
