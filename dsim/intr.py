"""Step clock and interrupt injector (DESIGN 4.2, 4.5).

Simulated time is the count of `line` (or `opcode`) trace events in package code
(frames whose file lies under <repo>/droop/) while Election.count() is on the
stack.  The injector delivers SIGINT at event number k, either by raising
KeyboardInterrupt from the trace function (the exception then surfaces in the
traced frame exactly there) or through the real signal path.
"""

import linecache
import os
import signal
import sys
import time
import traceback

from . import core as _core
from .core import BudgetExceeded

_REAL_CLOCKS = {name: getattr(time, name) for name in (
    'time', 'monotonic', 'perf_counter', 'process_time', 'time_ns', 'monotonic_ns', 'perf_counter_ns', 'sleep')}

CO_GENERATOR = 0x20

RENDERERS = ('report', 'dump', 'json')

#: the 15 ordered non-empty subsets of the three renderers, plus three orders with a repeated call
ORDERS = []
for _a in RENDERERS:
    ORDERS.append((_a,))
for _a in RENDERERS:
    for _b in RENDERERS:
        if _a != _b:
            ORDERS.append((_a, _b))
for _a in RENDERERS:
    for _b in RENDERERS:
        for _c in RENDERERS:
            if len({_a, _b, _c}) == 3:
                ORDERS.append((_a, _b, _c))
# a renderer called twice must work twice (and must not log a second marker)
ORDERS += [('report', 'report'), ('dump', 'json', 'dump'), ('json', 'json', 'report')]
ORDERS = tuple(ORDERS)


class Tracer:
    """counts package events inside Election.count(); optionally records sites and injects at event k

    event   'line' or 'opcode'
    k       event number at which the interrupt is delivered (None: never)
    mech    'raise' (tracer raises KeyboardInterrupt) or 'sigint' (real signal path)
    budget  step cap: BudgetExceeded is raised at event budget+1
    record  keep the site of every event, the instants at which the action list grew,
            and the span of the header fill (reference runs)
    """

    def __init__(self, repo, event='line', k=None, mech='raise', budget=5_000_000, record=False, sweep=None):
        self.repo = repo
        self.pkgdir = repo.pkgdir
        election = repo.droop.election.Election
        self.count_code = getattr(election.count, '__code__', None)
        rec = repo.droop.record.ElectionRecord
        self.span_codes = set()
        for nm in ('_fill', 'action'):
            fn = getattr(rec, nm, None)
            if fn is not None and hasattr(fn, '__code__'):
                self.span_codes.add(fn.__code__)
        # 'xline': line events in EVERY Python frame below count() -- also standard-library code the package calls
        # (fractions, copy, sort keys, ...), where a real ^C can land just as well; the harness's own frames excluded
        self.foreign = event == 'xline'
        self.event = 'line' if self.foreign else event
        self.k = k
        self.mech = mech
        # sweep mode: {event number: [(mech, payload), ...]}.  At each scheduled event the process forks once per
        # entry; the child delivers the interrupt there (its state is exactly the state of a run interrupted at
        # that event), the parent reads the child's result and carries on counting.
        self.sweep = sweep
        self.sweep_ks = sorted(sweep) if sweep else None
        self.child = None        # in a forked child: dict(k, mech, payload, w)
        self.results = []        # in the parent: what the children sent back
        self.budget = budget
        self.record = record
        # results
        self.n = 0
        self.active = False
        self.done = False
        self.E = None
        self.fired = None
        self.sigint_fallback = False
        self.real_only = False   # mech 'sigint' only: do not raise KeyboardInterrupt ourselves if the signal did not
        self.site_list = []      # sid -> (relfile, function, lineno)
        self.sites = []          # per event: sid (| SPAN_BIT when inside _fill/action)
        self.nact_changes = []   # (event number, len(actions)) whenever it changed
        self.fill_begin = None   # first event at which the header has its first key
        self.fill_done = None    # first event at which the header is complete
        self._glob = self._build()

    SPAN_BIT = 1 << 30

    def _describe(self, frame):
        "site, stack and record state at the instant of delivery"
        code = frame.f_code
        site = (os.path.relpath(code.co_filename, self.repo.path), code.co_name, frame.f_lineno)
        stack = []
        f = frame
        depth = 0
        while f is not None and depth < 60:
            stack.append(f.f_code.co_name)
            if f.f_code is self.count_code:
                break
            f = f.f_back
            depth += 1
        header = '?'
        nact = -1
        try:
            rec = self.E.erecord
            if getattr(rec, 'filled', False):
                header = 'complete'
            elif 'title' in rec or 'cids' in rec or 'ecids' in rec:
                header = 'partial'
            else:
                header = 'absent'
            acts = rec.get('actions')
            nact = len(acts) if isinstance(acts, list) else -1
        except Exception:       # pylint: disable=broad-except
            pass
        return dict(site=site, stack=stack, in_gen=bool(code.co_flags & CO_GENERATOR),
                    header=header, nact=nact, lasti=frame.f_lasti)

    def _fire(self, frame, n):
        "deliver the interrupt now"
        self.n = n
        self.fired = self._describe(frame)
        self.active = False
        self.done = True
        if self.mech == 'sigint':
            signal.raise_signal(signal.SIGINT)
            for _ in range(50):     # eval-breaker checks happen on backward jumps
                pass
            if self.real_only:
                # the program under test decides what SIGINT does (it may have changed the disposition): no stand-in
                return
            self.sigint_fallback = True
        raise KeyboardInterrupt()

    def _at(self, frame, n):
        "a scheduled event was reached: fire (single mode) or fork-and-fire (sweep mode); returns the next k"
        if self.sweep is None:
            self._fire(frame, n)
            return -1           # only reached in real_only mode when the signal did not raise
        import pickle       # pylint: disable=import-outside-toplevel
        for (mech, payload) in self.sweep[n]:
            r, w = os.pipe()
            pid = os.fork()
            if pid == 0:
                os.close(r)
                self.child = dict(k=n, mech=mech, payload=payload, w=w)
                self.mech = mech
                self._fire(frame, n)        # raises in the child
            os.close(w)
            chunks = []
            while True:
                b = os.read(r, 1 << 16)
                if not b:
                    break
                chunks.append(b)
            os.close(r)
            try:
                os.waitpid(pid, 0)
            except ChildProcessError:
                pass
            data = b"".join(chunks)
            if data:
                try:
                    self.results.append(pickle.loads(data))
                except Exception as e:      # pylint: disable=broad-except
                    self.results.append(dict(k=n, status='child-garbled', err=repr(e)))
            else:
                self.results.append(dict(k=n, status='child-died'))
        self._ki += 1
        return self.sweep_ks[self._ki] if self._ki < len(self.sweep_ks) else -1

    _ki = 0

    def _build(self):
        st = self
        pkgdir = self.pkgdir
        count_code = self.count_code
        span_codes = self.span_codes
        ev = self.event
        opc = ev == 'opcode'
        foreign = self.foreign
        harness_dir = os.path.dirname(os.path.abspath(__file__)) + os.sep
        if self.sweep_ks:
            k = self.sweep_ks[0]
        else:
            k = self.k if self.k is not None else -1
        budget = self.budget
        rec = self.record
        site_ids = {}
        site_list = self.site_list
        sites = self.sites
        repo_path = self.repo.path
        n = 0
        span_depth = 0
        last_nact = -1

        self._nfn = lambda: n

        def rec_event(frame):
            nonlocal last_nact
            code = frame.f_code
            key = (code, frame.f_lineno)
            sid = site_ids.get(key)
            if sid is None:
                sid = len(site_list)
                site_ids[key] = sid
                site_list.append((os.path.relpath(code.co_filename, repo_path), code.co_name, frame.f_lineno))
            sites.append(sid | Tracer.SPAN_BIT if span_depth else sid)
            try:
                r = st.E.erecord
                acts = r.get('actions')
                la = len(acts) if isinstance(acts, list) else -1
                if la != last_nact:
                    st.nact_changes.append((n, la))
                    last_nact = la
                if st.fill_done is None:
                    if st.fill_begin is None and ('title' in r or 'cids' in r):
                        st.fill_begin = n
                    if getattr(r, 'filled', False):
                        st.fill_done = n
            except Exception:   # pylint: disable=broad-except
                pass

        def local(frame, event, arg):    # pylint: disable=unused-argument
            nonlocal n, k
            if event == ev:
                n += 1
                if n == k:
                    k = st._at(frame, n)
                if n > budget:
                    st.n = n
                    raise BudgetExceeded(n)
                if rec:
                    rec_event(frame)
            return local

        def span_local(frame, event, arg):    # pylint: disable=unused-argument
            nonlocal n, span_depth, k
            if event == ev:
                n += 1
                if n == k:
                    k = st._at(frame, n)
                if n > budget:
                    st.n = n
                    raise BudgetExceeded(n)
                if rec:
                    rec_event(frame)
            elif event == 'return':
                span_depth -= 1
            return span_local

        def count_local(frame, event, arg):    # pylint: disable=unused-argument
            nonlocal n, k
            if event == ev:
                n += 1
                if n == k:
                    k = st._at(frame, n)
                if n > budget:
                    st.n = n
                    raise BudgetExceeded(n)
                if rec:
                    rec_event(frame)
            elif event == 'return':
                st.n = n
                st.active = False
                st.done = True
            return count_local

        def glob(frame, event, arg):    # pylint: disable=unused-argument
            nonlocal span_depth
            code = frame.f_code
            if st.active:
                if code.co_filename.startswith(pkgdir):
                    if opc:
                        frame.f_trace_opcodes = True
                    if code in span_codes:
                        span_depth += 1
                        return span_local
                    return local
                if foreign and not code.co_filename.startswith(harness_dir):
                    return local
                return None
            if code is count_code and not st.done:
                st.active = True
                st.E = frame.f_locals.get('self')
                if opc:
                    frame.f_trace_opcodes = True
                return count_local
            return None

        return glob

    def install(self):
        "start tracing (and, if the case has a simulated clock, put the time module's clocks on the step clock)"
        rate = _core.CLOCK_RATE
        if rate is not None:
            nfn = self._nfn
            time.time = lambda: 1_790_000_000.0 + nfn() * rate
            time.monotonic = lambda: 5000.0 + nfn() * rate
            time.perf_counter = lambda: 5000.0 + nfn() * rate
            time.process_time = lambda: 1.0 + nfn() * rate
            time.time_ns = lambda: int((1_790_000_000.0 + nfn() * rate) * 1e9)
            time.monotonic_ns = lambda: int((5000.0 + nfn() * rate) * 1e9)
            time.perf_counter_ns = lambda: int((5000.0 + nfn() * rate) * 1e9)
            time.sleep = lambda s: None
        sys.settrace(self._glob)

    @staticmethod
    def remove():
        "stop tracing; real clocks back"
        sys.settrace(None)
        for name, fn in _REAL_CLOCKS.items():
            setattr(time, name, fn)


class unraisable_counter:
    "context manager counting 'Exception ignored in ...' reports (interrupts swallowed by the interpreter)"

    def __init__(self):
        self.n = 0
        self.kinds = []
        self._old = None

    def __enter__(self):
        self._old = sys.unraisablehook

        def hook(u):
            self.n += 1
            self.kinds.append(getattr(u.exc_type, '__name__', '?'))
        sys.unraisablehook = hook
        return self

    def __exit__(self, *exc):
        sys.unraisablehook = self._old
        return False


def exc_info_in_tree(repo, exc):
    "(file:function, stripped source line) of the innermost frame of exc that lies in the tree under test"
    frame = None
    line_text = ''
    tb = exc.__traceback__
    for fs in traceback.extract_tb(tb):
        if fs.filename.startswith(repo.path + os.sep):
            frame = "%s:%s" % (os.path.relpath(fs.filename, repo.path), fs.name)
            line_text = (fs.line or linecache.getline(fs.filename, fs.lineno) or '').strip()
    return frame, line_text
