"""Common machinery: seeds, PRNG derivation, fork pool, repo binding, evidence.

One integer (VERIF_SEED) decides everything.  Every simulated run i of engine e
draws from random.Random(f"{seed}/{e}/{i}") -- string seeding goes through
SHA-512, so it is independent of PYTHONHASHSEED, of the worker that executes
the run and of the number of workers.  Nothing in here reads a clock except to
measure wall time for the evidence file and to enforce wall-clock kill limits
(which produce exit code 2, never a verdict).
"""

import hashlib
import io
import json
import os
import pickle
import random
import selectors
import signal
import sys
import time
import traceback

VERIF_DIR = os.path.dirname(os.path.dirname(os.path.abspath(__file__)))
# self-test sub-runs against mutated copies write their evidence and replays elsewhere (VERIF_OUT)
_OUT = os.environ.get('VERIF_OUT') or VERIF_DIR
EVIDENCE_DIR = os.path.join(_OUT, 'evidence')
REPLAY_DIR = os.path.join(_OUT, 'replays')
DEFAULT_REPO = '/repo'

EXIT_OK = 0
EXIT_VIOLATION = 1
EXIT_HARNESS = 2


class HarnessError(Exception):
    "the harness itself failed (budget kill, replay mismatch, dead worker); never a verdict"


class BudgetExceeded(BaseException):
    "step budget exhausted; BaseException so that the package's `except Exception` cannot swallow it"


# --------------------------------------------------------------------------
# seeds
# --------------------------------------------------------------------------

def env_seed():
    "VERIF_SEED, default 0"
    try:
        return int(os.environ.get('VERIF_SEED', '0'))
    except ValueError:
        return 0


def rng(seed, engine, *idx):
    "the PRNG of run idx of an engine"
    return random.Random("%d/%s/%s" % (seed, engine, "/".join(str(i) for i in idx)))


def nproc():
    "number of workers (VERIF_WORKERS overrides)"
    try:
        n = int(os.environ.get('VERIF_WORKERS', '0'))
    except ValueError:
        n = 0
    if n > 0:
        return n
    return min(16, os.cpu_count() or 1)


# --------------------------------------------------------------------------
# binding the repository under test
# --------------------------------------------------------------------------

class Repo:
    "the modules of the tree under test, imported from its working tree"

    def __init__(self, path):
        self.path = os.path.abspath(path)
        self.pkgdir = os.path.join(self.path, 'droop') + os.sep
        self.tree = None
        self.droop = None
        self.Droop = None

    def sources(self):
        "all package sources, sorted"
        out = []
        for root, dirs, files in os.walk(os.path.join(self.path, 'droop')):
            dirs.sort()
            dirs[:] = [d for d in dirs if d != '__pycache__']
            for f in sorted(files):
                if f.endswith('.py'):
                    out.append(os.path.join(root, f))
        out.append(os.path.join(self.path, 'Droop.py'))
        return out

    def tree_hash(self):
        "sha1 over the package sources this run sees"
        h = hashlib.sha1()
        for p in self.sources():
            h.update(os.path.relpath(p, self.path).encode())
            h.update(b'\0')
            try:
                with open(p, 'rb') as f:
                    h.update(f.read())
            except OSError:
                h.update(b'<missing>')
            h.update(b'\0')
        return h.hexdigest()


_REPO = None


def bind_repo(path=None):
    """import droop and Droop from the working tree at path (once per process).

    The interpreter never writes byte code into the tree.  After this call the
    process is a *zygote*: droop is imported and no Election was ever built.
    """
    global _REPO
    path = os.path.abspath(path or os.environ.get('VERIF_REPO') or DEFAULT_REPO)
    if _REPO is not None:
        if _REPO.path != path:
            raise HarnessError("repo already bound to %s" % _REPO.path)
        return _REPO
    sys.dont_write_bytecode = True
    if not os.path.isdir(os.path.join(path, 'droop')):
        raise HarnessError("no droop package under %s" % path)
    sys.path.insert(0, path)
    r = Repo(path)
    r.tree = r.tree_hash()
    import droop                      # pylint: disable=import-outside-toplevel
    import droop.election             # pylint: disable=import-outside-toplevel
    import droop.profile              # pylint: disable=import-outside-toplevel
    import droop.record               # pylint: disable=import-outside-toplevel
    import droop.options              # pylint: disable=import-outside-toplevel
    import droop.values               # pylint: disable=import-outside-toplevel
    if not os.path.abspath(droop.__file__).startswith(r.pkgdir):
        raise HarnessError("droop imported from %s, not from %s" % (droop.__file__, path))
    r.droop = droop
    try:
        import Droop                  # pylint: disable=import-outside-toplevel
        r.Droop = Droop
    except Exception as e:            # a tree whose CLI does not import: driver mode unavailable
        r.Droop = None
        r.Droop_error = repr(e)
    _REPO = r
    return r


def repo():
    "the bound repo"
    if _REPO is None:
        raise HarnessError("repo not bound")
    return _REPO


# --------------------------------------------------------------------------
# stdout sink (stub for Election.prog's progress dots)
# --------------------------------------------------------------------------

#: is the simulated console a terminal?  (set per case by an engine; code that asks isatty() sees this)
SINK_TTY = False
#: simulated seconds per step-clock event while a count runs under the tracer (None: the real clock is left alone).
#: The package reads no clock; a tree that starts to (progress throttling, time-outs, time-stamped caches) reads this one.
CLOCK_RATE = None
#: is the simulated console closed?  (fault injection: every write/flush fails like a closed file)
SINK_CLOSED = False


class Sink(io.TextIOBase):
    "counts what the package writes to the console during a count"

    def __init__(self):
        super().__init__()
        self.chars = 0
        self.writes = 0

    def isatty(self):
        return SINK_TTY

    def writable(self):
        return True

    def write(self, s):
        if SINK_CLOSED:
            raise ValueError("I/O operation on closed file.")
        self.chars += len(s)
        self.writes += 1
        return len(s)

    def flush(self):
        if SINK_CLOSED:
            raise ValueError("I/O operation on closed file.")


class sunk_stdout:
    "context manager: sys.stdout -> Sink"

    def __init__(self):
        self.sink = Sink()
        self._old = None

    def __enter__(self):
        self._old = sys.stdout
        sys.stdout = self.sink
        return self.sink

    def __exit__(self, *exc):
        sys.stdout = self._old
        return False


# --------------------------------------------------------------------------
# fork helpers
# --------------------------------------------------------------------------

class ChildFailed(HarnessError):
    "a forked child died, timed out or raised"


def _child_main(w, fn, args):
    "body of a forked child: compute, pickle to the pipe, _exit"
    code = 0
    try:
        try:
            res = ('ok', fn(*args))
        except BaseException as e:      # pylint: disable=broad-except
            res = ('exc', type(e).__name__, str(e)[:2000], traceback.format_exc()[-6000:])
        try:
            data = pickle.dumps(res, protocol=pickle.HIGHEST_PROTOCOL)
        except Exception as e:          # pylint: disable=broad-except
            data = pickle.dumps(('exc', 'PicklingError', repr(e), ''))
        with os.fdopen(w, 'wb') as f:
            f.write(data)
    except BaseException:               # pylint: disable=broad-except
        code = 3
    finally:
        os._exit(code)


def _spawn(fn, args):
    "fork a child running fn(*args); return (pid, read_fd)"
    r, w = os.pipe()
    try:
        sys.stdout.flush()
        sys.stderr.flush()
    except Exception:                   # pylint: disable=broad-except
        pass
    pid = os.fork()
    if pid == 0:
        os.close(r)
        # a child must never run the parent's trace function or signal plans
        sys.settrace(None)
        _child_main(w, fn, args)
    os.close(w)
    return pid, r


def _reap(pid):
    try:
        os.waitpid(pid, 0)
    except ChildProcessError:
        pass


def _kill(pid):
    try:
        os.kill(pid, signal.SIGKILL)
    except ProcessLookupError:
        pass
    _reap(pid)


def fork_call(fn, args=(), timeout=300.0, what='child'):
    """run fn(*args) in a child forked from this process and return its result.

    The child starts with exactly this process's state (for a zygote: droop
    imported, no Election ever built) and nothing it does survives it.
    """
    pid, r = _spawn(fn, args)
    chunks = []
    deadline = time.monotonic() + timeout
    sel = selectors.DefaultSelector()
    sel.register(r, selectors.EVENT_READ)
    try:
        while True:
            left = deadline - time.monotonic()
            if left <= 0:
                _kill(pid)
                raise ChildFailed("%s: wall-clock limit %.0fs" % (what, timeout))
            if not sel.select(min(left, 5.0)):
                continue
            b = os.read(r, 1 << 16)
            if not b:
                break
            chunks.append(b)
    finally:
        sel.close()
        os.close(r)
    _reap(pid)
    data = b"".join(chunks)
    if not data:
        raise ChildFailed("%s: died without a result" % what)
    res = pickle.loads(data)
    if res[0] == 'ok':
        return res[1]
    raise ChildFailed("%s: raised %s: %s\n%s" % (what, res[1], res[2], res[3]))


def fork_map(fn, tasks, workers=None, timeout=900.0, what='task', progress=None):
    """results[i] = fn(tasks[i]), each task in its own child forked from this process.

    At most `workers` children run at once; results come back in task order, so
    the outcome does not depend on the worker count or on who finished first.
    A child that dies, raises or exceeds `timeout` seconds makes the whole map a
    HarnessError (exit 2) -- never a property verdict.
    """
    workers = workers or nproc()
    n = len(tasks)
    results = [None] * n
    nxt = 0
    live = {}    # fd -> [pid, idx, chunks, deadline]
    sel = selectors.DefaultSelector()
    done = 0
    try:
        while nxt < n or live:
            while nxt < n and len(live) < workers:
                pid, r = _spawn(fn, (tasks[nxt],))
                live[r] = [pid, nxt, [], time.monotonic() + timeout]
                sel.register(r, selectors.EVENT_READ)
                nxt += 1
            events = sel.select(2.0)
            now = time.monotonic()
            for key, _ in events:
                r = key.fd
                ent = live[r]
                b = os.read(r, 1 << 20)
                if b:
                    ent[2].append(b)
                    continue
                sel.unregister(r)
                os.close(r)
                del live[r]
                _reap(ent[0])
                data = b"".join(ent[2])
                if not data:
                    raise ChildFailed("%s %d: died without a result" % (what, ent[1]))
                res = pickle.loads(data)
                if res[0] != 'ok':
                    raise ChildFailed("%s %d: raised %s: %s\n%s" % (what, ent[1], res[1], res[2], res[3]))
                results[ent[1]] = res[1]
                done += 1
                if progress:
                    progress(done, n)
                elif n >= 200 and done % max(1, n // 10) == 0:
                    print("  ... %d/%d %ss done" % (done, n, what), file=sys.stderr)
                    sys.stderr.flush()
            for r, ent in list(live.items()):
                if now > ent[3]:
                    raise ChildFailed("%s %d: wall-clock limit %.0fs" % (what, ent[1], timeout))
    finally:
        for r, ent in list(live.items()):
            try:
                sel.unregister(r)
            except Exception:           # pylint: disable=broad-except
                pass
            os.close(r)
            _kill(ent[0])
        sel.close()
    return results


# --------------------------------------------------------------------------
# evidence
# --------------------------------------------------------------------------

LEVELS = ("exploration", "fault_enumeration", "model_checking", "proof", "translation_validation", "other")


def write_evidence(prop, ev):
    "write /verif/evidence/<id>.json after a minimal shape check (EVIDENCE.schema.json)"
    for k in ("property_id", "tier", "seed", "level", "coverage", "wall_s"):
        if k not in ev:
            raise HarnessError("evidence lacks %s" % k)
    cov = ev["coverage"]
    if ev["level"] not in LEVELS or ev["tier"] not in ("quick", "thorough"):
        raise HarnessError("evidence level/tier invalid")
    if not isinstance(ev["seed"], int) or not isinstance(ev["wall_s"], (int, float)):
        raise HarnessError("evidence seed/wall_s invalid")
    if ev["level"] in ("exploration", "fault_enumeration"):
        if not (isinstance(cov.get("evaluations"), int) and cov["evaluations"] >= 1):
            raise HarnessError("evidence: evaluations")
        if not (isinstance(cov.get("distinct_nontrivial"), int) and cov["distinct_nontrivial"] >= 2):
            raise HarnessError("evidence: distinct_nontrivial < 2 (zero work done?)")
        if not isinstance(cov.get("rule"), str) or not cov.get("samples"):
            raise HarnessError("evidence: rule/samples")
    # a run made smaller (or larger) than its tier's default says so
    overrides = {k: v for k, v in sorted(os.environ.items()) if k.startswith(('VERIF_C16_', 'VERIF_C19_', 'VERIF_C20_'))}
    if overrides:
        cov['size_overrides_from_environment'] = overrides
    os.makedirs(EVIDENCE_DIR, exist_ok=True)
    path = os.path.join(EVIDENCE_DIR, "%s.json" % prop)
    tmp = path + ".tmp"
    with open(tmp, "w", encoding="utf-8") as f:
        json.dump(ev, f, indent=1, sort_keys=True, ensure_ascii=True)
        f.write("\n")
    os.replace(tmp, path)
    if ev["tier"] == "thorough":
        # the next quick run rewrites <id>.json; keep what the last thorough run covered next to it
        with open(os.path.join(EVIDENCE_DIR, "%s.thorough.json" % prop), "w", encoding="utf-8") as f:
            json.dump(ev, f, indent=1, sort_keys=True, ensure_ascii=True)
            f.write("\n")
    return path


def write_replay(prop, seed, run, obj):
    "write a replay file and return its path"
    os.makedirs(REPLAY_DIR, exist_ok=True)
    path = os.path.join(REPLAY_DIR, "%s-%d-%s.json" % (prop, seed, run))
    with open(path, "w", encoding="utf-8") as f:
        json.dump(obj, f, indent=1, sort_keys=True, ensure_ascii=True)
        f.write("\n")
    return path


def digest(obj):
    "stable short digest of a JSON-able object"
    return hashlib.sha1(json.dumps(obj, sort_keys=True, ensure_ascii=True, default=repr).encode()).hexdigest()[:16]


def merge_counts(dst, src):
    "dst[k] += src[k]"
    for k, v in src.items():
        dst[k] = dst.get(k, 0) + v
    return dst
