"""Known findings (DESIGN 4.9): a committed list, matched by signature, never written at run time."""

import json
import os

from .core import VERIF_DIR

PATH = os.path.join(VERIF_DIR, 'known_findings.json')


def load():
    "entries of known_findings.json ([] if the file is missing)"
    try:
        with open(PATH, encoding='utf-8') as f:
            data = json.load(f)
    except FileNotFoundError:
        return []
    return data.get('findings', [])


def match(prop, sig, entries=None):
    """the `known` entry whose signature equals sig field by field, or None.

    `fixed` entries are documentation and suppress nothing.
    """
    if entries is None:
        entries = load()
    for e in entries:
        if e.get('property') != prop or e.get('status') != 'known':
            continue
        es = e.get('signature', {})
        if all(es.get(k) == sig.get(k) for k in set(es) | set(sig)):
            return e
    return None
