"""C19 engine: an interrupted count can always be reported, as a prefix of the full count.

One *case* = one generated election (profile text + options).  For a case the
engine computes an uninterrupted reference under the step clock, then re-runs
the count with SIGINT delivered at chosen events and calls the renderers the
way Droop.main does.  See DESIGN section 5 for the oracle clauses.
"""

import json
import signal
import sys

from . import canon, gen, simfs
from . import core as _core
from .core import BudgetExceeded, rng, sunk_stdout, repo as get_repo
from .minimise import ddmin
from .intr import Tracer, ORDERS, unraisable_counter, exc_info_in_tree

SIM_PATH = '/simfs/ballots.blt'

REF_BUDGET = {'quick': 400_000, 'thorough': 1_500_000}


def ref_budget(idx, tier):
    "step budget of the reference count of case idx (the long 55-70 candidate cases need more)"
    return 4_000_000 if idx % 150 == 77 else REF_BUDGET[tier]


# --------------------------------------------------------------------------
# running
# --------------------------------------------------------------------------

def _new_election(R, text, options):
    prof = R.droop.profile.ElectionProfile(data=text)
    return R.droop.election.Election(prof, dict(options))


def run_reference(R, text, options, event='line', budget=400_000):
    """uninterrupted count under the step clock.

    returns dict(ok=True, T, actions, renderings, tracer-data...) or dict(ok=False, why)
    """
    try:
        E = _new_election(R, text, options)
    except BaseException as e:      # pylint: disable=broad-except
        return dict(ok=False, why='construct-raises:%s' % type(e).__name__)
    tr = Tracer(R, event=event, budget=budget, record=True)
    with sunk_stdout() as sink:
        try:
            tr.install()
            E.count()
        except BudgetExceeded:
            return dict(ok=False, why='ref-over-budget')
        except BaseException as e:  # pylint: disable=broad-except
            return dict(ok=False, why='ref-raises:%s' % type(e).__name__)
        finally:
            tr.remove()
    if tr.E is not E or tr.n <= 0:
        return dict(ok=False, why='count-not-traced')
    rend = {}
    try:
        rend['report'] = E.report()
        rend['dump'] = E.dump()
        rend['json'] = E.json()
        json.loads(rend['json'])
    except BaseException as e:      # pylint: disable=broad-except
        return dict(ok=False, why='ref-render-raises:%s' % type(e).__name__)
    actions = canon.canon_actions(E.erecord)
    return dict(ok=True, T=tr.n, actions=actions, rend=rend, sites=tr.sites, site_list=tr.site_list,
                nact_changes=tr.nact_changes, fill_begin=tr.fill_begin, fill_done=tr.fill_done,
                progress_chars=sink.chars, rule=getattr(E.rule, 'name', None) or options.get('rule'))


RENDER_WALL = 30       # seconds; a rendering of these small elections takes milliseconds


class RenderTimeout(BaseException):
    "a renderer did not return"


def _render_alarm(signum, frame):       # pylint: disable=unused-argument
    raise RenderTimeout()


class _closed_console:
    "context manager: the simulated console (core.Sink) fails like a closed file while the count runs"

    def __init__(self, on):
        self.on = bool(on)
        self._old = False

    def __enter__(self):
        self._old = _core.SINK_CLOSED
        if self.on:
            _core.SINK_CLOSED = True
        return self

    def __exit__(self, *exc):
        _core.SINK_CLOSED = self._old
        return False


class _ClosedStdout:
    "sys.stdout of a daemon or of `prog >&-`: every use fails like a closed file"

    def write(self, s):         # pylint: disable=unused-argument
        raise ValueError("I/O operation on closed file.")

    def flush(self):
        raise ValueError("I/O operation on closed file.")

    closed = True


def stdout_closed_at(k):
    "is the console gone while the renderings of the execution interrupted at event k are produced? (1 in 13)"
    return k % 13 == 5


def count_stdout_closed_at(k, ref):
    """is the console already gone while the COUNT runs? (1 in 17, and only for counts that write nothing to it:
    a Meek-type count with progress output would fail on a closed console with or without an interrupt)"""
    return k % 17 == 3 and not ref.get('progress_chars')


def _render(R, E, order, closed_stdout=False):
    """call the renderers the way Droop.main does after ^C; never raises.

    closed_stdout: fault injection at the console seam -- the renderers return strings and have no business with
    sys.stdout, so a report must still be producible when the console is gone."""
    import sys as _sys      # pylint: disable=import-outside-toplevel
    out = []
    old = signal.signal(signal.SIGALRM, _render_alarm)
    saved_stdout = _sys.stdout
    if closed_stdout:
        _sys.stdout = _ClosedStdout()
    try:
        for name in order:
            signal.setitimer(signal.ITIMER_REAL, RENDER_WALL)
            try:
                txt = getattr(E, name)(True)
                signal.setitimer(signal.ITIMER_REAL, 0)
                out.append(dict(name=name, text=txt))
            except RenderTimeout as e:
                frame, line_text = exc_info_in_tree(R, e)
                out.append(dict(name=name, exc='RenderTimeout', msg='renderer did not return within %d s' % RENDER_WALL,
                                frame=frame, line_text=line_text))
            except BaseException as e:  # pylint: disable=broad-except
                signal.setitimer(signal.ITIMER_REAL, 0)
                frame, line_text = exc_info_in_tree(R, e)
                out.append(dict(name=name, exc=type(e).__name__, msg=str(e)[:200], frame=frame, line_text=line_text))
    finally:
        _sys.stdout = saved_stdout
        signal.setitimer(signal.ITIMER_REAL, 0)
        signal.signal(signal.SIGALRM, old)
    return out


def _finish_api(R, E, tr, unr, exc, res, order):
    "after count() ended (normally or not) in an execution with an injected interrupt: classify and render"
    res['fired'] = tr.fired
    res['unraisable'] = unr.n
    if exc is None:
        if tr.fired is not None and unr.n == 0:
            # the interrupt was raised inside a package frame, the interpreter reported nothing as
            # unraisable, and yet count() returned normally: package code discarded the user's interrupt
            res.update(status='swallowed', actions=canon.canon_actions(E.erecord),
                       marked=bool(getattr(E, 'intr_logged', False)))
            return res
        res.update(status='completed')
        return res
    res['count_exc'] = type(exc).__name__
    res['status'] = 'interrupted'
    res['stdout_closed'] = stdout_closed_at(res['k'])
    res['renderings'] = _render(R, E, order, res['stdout_closed'])
    res['actions'] = canon.canon_actions(E.erecord)
    return res


def summarise(ref, res):
    "compact, picklable summary of one interrupted execution: what the accounting and the oracle need"
    import hashlib      # pylint: disable=import-outside-toplevel
    h = hashlib.sha1()
    for rr in res.get('renderings') or ():
        h.update(rr['name'].encode())
        h.update((rr.get('text') if isinstance(rr.get('text'), str) else str(rr.get('exc'))).encode('utf-8', 'replace'))
    return dict(event=res['event'], k=res['k'], mech=res['mech'], order=res['order'], driver=res['driver'],
                flags=res.get('flags'), status=res.get('status'), fired=res.get('fired'),
                count_exc=res.get('count_exc'), unraisable=res.get('unraisable'), stdout_closed=res.get('stdout_closed'),
                count_stdout_closed=res.get('count_stdout_closed'),
                nmark=count_markers(ref, res.get('actions') or []),
                viols=check(ref, res), rhash=h.hexdigest()[:12])


def sweep_api(R, text, options, event, schedule, ref, budget):
    """one traced count; at every scheduled event the process forks and the child delivers the interrupt there.

    schedule: {k: [(mech, order), ...]}.  Returns (list of summaries, final canonical actions of the parent run)
    or (None, reason).  The child's state at event k is exactly that of a fresh run interrupted at k (the count is
    deterministic), so this is the O(T) equivalent of re-running to every k; run_faulted() remains the replay path
    and a seeded sample of injections is executed both ways and compared.
    """
    import os           # pylint: disable=import-outside-toplevel
    import pickle       # pylint: disable=import-outside-toplevel
    try:
        E = _new_election(R, text, options)
    except BaseException as e:      # pylint: disable=broad-except
        return None, 'construct-raises:%s' % type(e).__name__
    tr = Tracer(R, event=event, sweep=schedule, budget=budget)
    with unraisable_counter() as unr, sunk_stdout():
        exc = None
        try:
            tr.install()
            E.count()
        except BudgetExceeded:
            if tr.child is None:
                return None, 'sweep-over-budget'
            exc = None
        except BaseException as e:      # pylint: disable=broad-except
            exc = e
        finally:
            tr.remove()
        if tr.child is not None:
            # ---- forked child: finish like run_faulted, send the summary, vanish
            c = tr.child
            try:
                res = dict(event=event, k=c['k'], mech=c['mech'], order=list(c['payload']), driver='api')
                res = _finish_api(R, E, tr, unr, exc, res, c['payload'])
                data = pickle.dumps(summarise(ref, res))
            except BaseException as e:  # pylint: disable=broad-except
                data = pickle.dumps(dict(k=c['k'], status='child-error', err=repr(e)[:300]))
            try:
                os.write(c['w'], data) if len(data) < 60000 else os.write(c['w'], pickle.dumps(
                    dict(k=c['k'], status='child-error', err='summary too large')))
            finally:
                os._exit(0)
    if exc is not None:
        return None, 'sweep-parent-raises:%s' % type(exc).__name__
    return tr.results, canon.canon_actions(E.erecord)


_IN_CLI_CHILD = [False]


class CliExit(Exception):
    "the command-line program ended with a non-zero exit status"


def _invoke_cli(R, opts):
    """the whole program: Droop.py run as __main__ with a command line, standard output not a terminal.  Returns what
    main() returned, recovered from the program's output (progress characters of exact Meek counts come first)."""
    import io           # pylint: disable=import-outside-toplevel
    import os           # pylint: disable=import-outside-toplevel
    import runpy        # pylint: disable=import-outside-toplevel
    argv = ['Droop.py']
    for k_, v_ in opts.items():
        if v_ is None:
            continue
        argv.append("%s=%s" % (k_, ('true' if v_ else 'false') if isinstance(v_, bool) else str(v_).strip()))
    buf = io.StringIO()
    err = io.StringIO()
    old = (sys.argv, sys.stdout, sys.stderr)
    sys.argv, sys.stdout, sys.stderr = argv, buf, err
    code = 0
    try:
        runpy.run_path(os.path.join(R.path, 'Droop.py'), run_name='__main__')
    except SystemExit as e:
        code = e.code
    finally:
        sys.argv, sys.stdout, sys.stderr = old
    if code not in (0, None):
        raise CliExit("exit status %r: %s" % (code, err.getvalue()[-300:]))
    out = buf.getvalue()
    return out[:-1] if out.endswith('\n') else out


def _run_cli_forked(R, text, options, event, k, mech, order, flags, raw):
    """one interrupted execution of the command-line program, in a child of its own: the program installs whatever
    signal dispositions it likes, the interrupt is a real SIGINT raised at event k, and a child killed by it is an
    outcome, not a harness failure"""
    def child():
        _IN_CLI_CHILD[0] = True
        signal.signal(signal.SIGINT, signal.default_int_handler)
        r = run_faulted(R, text, options, event, k, mech, order, 'cli', flags, raw)
        r.pop('renderings_obj', None)
        return r
    try:
        return _core.fork_call(child, (), timeout=120, what='C19 cli run')
    except _core.ChildFailed as e:
        why = str(e)
        res = dict(event=event, k=k, mech=mech, order=list(order), driver='cli', count_stdout_closed=False,
                   flags=sorted(flags or ()), unraisable=0)
        if 'died without a result' in why:
            # the process is gone and printed nothing: what a user sees after ^C is a dead program, not a report
            res.update(status='interrupted', main_exc='ProcessKilled',
                       msg='the program died when SIGINT was delivered during the count; no report was produced',
                       frame=None, line_text='',
                       fired=dict(site=('?', '?', 0), header='?', stack=[], nact=-1, in_gen=False))
            return res
        raise


def run_faulted(R, text, options, event, k, mech, order, driver='api', flags=None, raw=None, closed_count=False):
    """count with SIGINT delivered at event k, then render.

    driver 'api'  : Election(...).count(), then E.<renderer>(True) in `order`
    driver 'main' : Droop.main({path, rule..., report/dump/json flags}) through SimFS;
                    `flags` is the set of enabled renderings, `raw` the stored bytes
    """
    if driver == 'cli' and not _IN_CLI_CHILD[0]:
        return _run_cli_forked(R, text, options, event, k, mech, order, flags, raw)
    res = dict(event=event, k=k, mech=mech, order=list(order), driver=driver, count_stdout_closed=bool(closed_count))
    tr = Tracer(R, event=event, k=k, mech='sigint' if driver == 'cli' else mech,
                budget=REF_BUDGET['thorough'] * 3 if driver == 'cli' else k + 1000)
    tr.real_only = driver == 'cli'
    with unraisable_counter() as unr, sunk_stdout(), _closed_console(closed_count):
        if driver == 'api':
            try:
                E = _new_election(R, text, options)
            except BaseException as e:      # pylint: disable=broad-except
                res.update(status='construct-raises', exc=type(e).__name__)
                return res
            exc = None
            try:
                tr.install()
                E.count()
            except BudgetExceeded:
                res.update(status='budget')
                return res
            except BaseException as e:      # pylint: disable=broad-except
                exc = e
            finally:
                tr.remove()
            return _finish_api(R, E, tr, unr, exc, res, order)
        # driver == 'main'
        fs = simfs.SimFS()
        fs.put(SIM_PATH, raw if raw is not None else text.encode('utf-8'))
        opts = dict(options)
        opts['path'] = SIM_PATH
        for name in ('report', 'dump', 'json'):
            opts[name] = name in flags
        scratch = None
        cwd = None
        if 'profile' in flags:
            # Droop.main's profiling path: the count runs under cProfile and profile.out is written to the cwd
            import os           # pylint: disable=import-outside-toplevel
            import tempfile     # pylint: disable=import-outside-toplevel
            opts['profile'] = 1
            scratch = tempfile.mkdtemp(prefix='droop-c19-prof-')
            cwd = os.getcwd()
            os.chdir(scratch)
        out = None
        exc = None
        # observe (from outside) whether count() itself let an exception out: wrap the public method
        ElectionCls = R.droop.election.Election
        orig_count = ElectionCls.__dict__.get('count')
        seen = {}

        def watched_count(self_, *a, **kw):
            try:
                return orig_count(self_, *a, **kw)
            except BaseException as e2:     # pylint: disable=broad-except
                seen['exc'] = type(e2).__name__
                raise
        if orig_count is not None:
            ElectionCls.count = watched_count
        try:
            with simfs.mounted(R.droop.profile, fs):
                old_alarm = signal.signal(signal.SIGALRM, _render_alarm)
                signal.setitimer(signal.ITIMER_REAL, 2 * RENDER_WALL)
                try:
                    tr.install()
                    out = _invoke_cli(R, opts) if driver == 'cli' else R.Droop.main(opts)
                except BudgetExceeded:
                    res.update(status='budget')
                    return res
                except BaseException as e:      # pylint: disable=broad-except
                    exc = e
                finally:
                    tr.remove()
                    signal.setitimer(signal.ITIMER_REAL, 0)
                    signal.signal(signal.SIGALRM, old_alarm)
        finally:
            if orig_count is not None:
                ElectionCls.count = orig_count
            if scratch:
                import shutil       # pylint: disable=import-outside-toplevel
                os.chdir(cwd)
                shutil.rmtree(scratch, ignore_errors=True)
        res['fired'] = tr.fired
        res['unraisable'] = unr.n
        res['flags'] = sorted(flags)
        if tr.fired is None:
            res.update(status='completed' if exc is None else 'main-raises-unfired',
                       exc=type(exc).__name__ if exc else None)
            return res
        E = tr.E
        if exc is not None:
            frame, line_text = exc_info_in_tree(R, exc)
            res.update(status='interrupted', main_exc=type(exc).__name__, msg=str(exc)[:200], frame=frame,
                       line_text=line_text)
            return res
        marked = isinstance(out, str) and 'interrupt' in out.lower() and bool(getattr(E, 'intr_logged', False))
        if not marked and E is not None and not getattr(E, 'intr_logged', False):
            if unr.n:
                # the interpreter swallowed the interrupt (generator finalisation); the count completed
                res.update(status='completed')
                return res
            acts = canon.canon_actions(E.erecord)
            if 'exc' not in seen and acts and '"s:tag": "end"' in acts[-1]:
                res.update(status='swallowed', actions=acts, marked=False, main_out=out)
                return res
        res['status'] = 'interrupted'
        res['main_out'] = out
        # what main should have returned: the enabled renderings of that election, in main's order
        res['renderings'] = _render(R, E, [nm for nm in ('report', 'dump', 'json') if nm in flags])
        res['actions'] = canon.canon_actions(E.erecord)
        return res


# --------------------------------------------------------------------------
# oracle
# --------------------------------------------------------------------------

def _report_action_lines(text):
    "lines of a report from the first logged action on (None if the anchor is missing)"
    lines = text.split('\n')
    for i, ln in enumerate(lines):
        if ln.startswith('\tAdd '):
            return lines[i:]
    return None


def _strip_marker_lines(lines):
    return [ln for ln in lines if 'interrupt' not in ln.lower()]


def check(ref, res):
    """oracle: list of violations (dicts with class, what, ...) of one interrupted execution"""
    v = []
    if res.get('status') == 'swallowed':
        acts = res.get('actions') or []
        if acts and '"s:tag": "end"' in acts[-1] and not res.get('marked'):
            v.append(dict(cls='interrupt-swallowed', what=res['driver'],
                          msg='SIGINT delivered inside package code was discarded: the count ran to completion '
                              'and its output is the complete, unmarked record',
                          frame=("%s:%s" % tuple(res['fired']['site'][:2])) if res.get('fired') else None,
                          line_text=None))
        return v
    if res.get('status') != 'interrupted':
        return v
    if res['driver'] in ('main', 'cli') and 'main_exc' in res:
        v.append(dict(cls='main-diverges', what=res['driver'], exc=res['main_exc'], msg=res.get('msg', ''),
                      frame=res.get('frame'), line_text=res.get('line_text', '')))
        return v
    F = ref['actions']
    # record actions: a prefix of the reference's, followed only by logged marker entries
    A = res['actions']
    j, rest = _lcp_rest(A, F)
    marker_msgs = []
    if all('"s:tag": "log"' in a for a in rest):
        for a in rest:
            try:
                marker_msgs.append(str(json.loads(a).get('s:msg')))
            except ValueError:
                marker_msgs.append('')
    else:
        v.append(dict(cls='not-prefix', what='record', index=j, len_i=len(A), len_f=len(F),
                      got=rest[0][:400] if rest else None, want=F[j][:400] if j < len(F) else None))
    if len(marker_msgs) > 1:
        v.append(dict(cls='marker-duplicated', what='record', msg='%d interrupt markers logged (renderers %s)' % (
            len(marker_msgs), ",".join(res.get('order') or res.get('flags') or [])), frame=None, line_text=None))
    marker_lines = set("\t" + m for m in marker_msgs)
    for r in res['renderings']:
        if 'exc' in r:
            v.append(dict(cls='render-raises', what=r['name'], exc=r['exc'], msg=r['msg'], frame=r['frame'],
                          line_text=r['line_text']))
            continue
        txt = r['text']
        if not isinstance(txt, str):
            v.append(dict(cls='render-invalid', what=r['name'], msg='not a string: %s' % type(txt).__name__))
            continue
        # a banner in any wording that mentions the interrupt -- on a line the uninterrupted rendering does not
        # have (a candidate called "Uninterrupted Service" marks nothing); or a logged marker entry (below)
        ref_lines = set(ref['rend'][r['name']].split('\n')) if r['name'] in ref['rend'] else set()
        marked = any('interrupt' in ln.lower() and ln not in ref_lines for ln in txt.split('\n'))
        if r['name'] == 'report':
            a0 = _report_action_lines(ref['rend']['report'])
            a1 = _report_action_lines(txt)
            if a0 is not None and a1 is not None:
                jj, rest1 = _lcp_rest(a1, a0)
                extra = [ln for ln in rest1 if ln != '']
                if any(ln in marker_lines for ln in extra):
                    marked = True
                bad = [ln for ln in extra if ln not in marker_lines]
                if bad:
                    v.append(dict(cls='render-not-prefix', what='report', index=jj, got=bad[0][:200],
                                  want=a0[jj][:200] if jj < len(a0) else None))
            elif a0 is not None and a1 is None and j > 0:
                v.append(dict(cls='render-not-prefix', what='report', index=0, got=None, want=a0[0][:200],
                              msg='no action section in the interrupted report'))
        elif r['name'] == 'dump':
            d0 = ref['rend']['dump'].split('\n')[1:]
            d1 = txt.split('\n')[1:]
            jj, rest1 = _lcp_rest(d1, d0)
            extra = [ln for ln in rest1 if ln != '']
            logrows = [ln for ln in extra if (ln.split('\t') + ['', ''])[1] == 'log']
            if logrows:
                marked = True
            if len(logrows) != len(extra):
                bad = [ln for ln in extra if ln not in logrows]
                v.append(dict(cls='render-not-prefix', what='dump', index=jj, got=bad[0][:200],
                              want=d0[jj][:200] if jj < len(d0) else None))
        elif r['name'] == 'json':
            try:
                j1 = json.loads(txt)
                acts1 = j1['actions']
                if not isinstance(acts1, list):
                    raise ValueError('actions is not a list')
            except Exception as e:      # pylint: disable=broad-except
                v.append(dict(cls='render-invalid', what='json', msg='%s: %s' % (type(e).__name__, str(e)[:100])))
                continue
            acts0 = json.loads(ref['rend']['json'])['actions']
            c0 = [json.dumps(a, sort_keys=True) for a in acts0]
            c1 = [json.dumps(a, sort_keys=True) for a in acts1]
            jj, rest1 = _lcp_rest(c1, c0)
            logs = [a for a in acts1[jj:] if isinstance(a, dict) and a.get('tag') == 'log']
            if logs:
                marked = True
            if len(logs) != len(rest1):
                v.append(dict(cls='render-not-prefix', what='json', index=jj, got=rest1[0][:200] if rest1 else None,
                              want=c0[jj][:200] if jj < len(c0) else None))
        if not marked:
            v.append(dict(cls='not-marked', what=r['name'], msg='no interruption mark in the rendering'))
    if res['driver'] in ('main', 'cli'):
        out = res.get('main_out')
        if not isinstance(out, str):
            v.append(dict(cls='main-diverges', what=res['driver'], msg='main returned %s' % type(out).__name__))
        else:
            ref_all = set()
            for t in ref['rend'].values():
                ref_all.update(t.split('\n'))
            if not any('interrupt' in ln.lower() and ln not in ref_all for ln in out.split('\n')) \
                    and not any(m and m in out for m in marker_msgs):
                v.append(dict(cls='not-marked', what=res['driver'], msg='main output lacks any interruption mark'))
            if not any('exc' in r for r in res['renderings']):
                exp = "".join(r['text'] for r in res['renderings'])
                if res['driver'] == 'cli' and out.endswith(exp) and '\n' not in out[:len(out) - len(exp)]:
                    out = exp       # progress characters printed during the count precede the program's report
                if out != exp:
                    v.append(dict(cls='main-diverges', what=res['driver'],
                                  msg='main output differs from report+dump+json of the interrupted election'))
    return v


def _lcp_rest(seq, refseq):
    "(length of the longest common prefix, what follows it in seq)"
    n = min(len(seq), len(refseq))
    j = 0
    while j < n and seq[j] == refseq[j]:
        j += 1
    return j, seq[j:]


def count_markers(ref, actions):
    "number of trailing logged entries that are not actions of the reference (the interrupt markers)"
    j, rest = _lcp_rest(actions, ref['actions'])
    return len(rest) if all('"s:tag": "log"' in a for a in rest) else 0


def signature(viol):
    "known-findings signature of a violation"
    return dict(clause=viol['cls'], what=viol.get('what'), exc=viol.get('exc'), frame=viol.get('frame'),
                line_text=viol.get('line_text'))


def vclass(viol):
    "violation class kept fixed during minimisation"
    return (viol['cls'], viol.get('what'), viol.get('exc'), viol.get('frame'))


# --------------------------------------------------------------------------
# schedule
# --------------------------------------------------------------------------

#: counts longer than this many line events get a short schedule and no driver/opcode/stdlib arms
LONG_COUNT = 300_000

#: instants later than this many events are reached by fork-at-instant instead of a re-run from the start
FORK_FROM = {'line': 4000, 'opcode': 16000, 'xline': 5000}

INTERESTING = {'action', '_fill', 'elect', 'defeat', 'unpend', 'copy', 'postCheck', 'cState', 'cDict', 'as_dict',
               'logAction', 'log', 'newRound', 'count', 'record', 'info'}

PARAMS = {
    'quick': dict(exh_cap=2000, sample=300, op_cases=0.15, op_stride=5, op_random=60, main_cases=0.25, main_k=36,
                  sigint=0.01, window_orders=2, crosscheck=3, cli_k=5, long_k=90, cprofile=0.08, op_max=700, x_cases=0.2, x_max=100, max_k=1100),
    'thorough': dict(exh_cap=8000, sample=1500, op_cases=0.5, op_stride=1, op_random=400, main_cases=0.4, main_k=120,
                     sigint=0.02, window_orders=3, crosscheck=6, cli_k=16, long_k=600, cprofile=0.1, op_max=5000, x_cases=0.5, x_max=500, max_k=5000),
}


def line_schedule(ref, P, rnd):
    "sorted list of line-event numbers at which to interrupt"
    T = ref['T']
    if T <= P['exh_cap']:
        return list(range(1, T + 1)), True
    if T > LONG_COUNT:
        # a very long count (55-70 candidates, more than fifty rounds): every forked instant costs tenths of a second
        # here, so only a short schedule -- the start, a sample of action boundaries (late ones included), a
        # stratified sample of the rest
        m = P['long_k']
        ks = set(range(1, 9))
        bounds = [n for (n, _) in ref['nact_changes'] if 1 <= n <= T]
        for n in rnd.sample(bounds, min(len(bounds), m // 3)):
            ks.add(n)
            ks.add(max(1, n - 1))
        ks.update(bounds[-3:])
        for j in range(m // 3):
            lo = 1 + (T * j) // (m // 3)
            hi = max(lo, (T * (j + 1)) // (m // 3))
            ks.add(rnd.randint(lo, hi))
        return sorted(ks), False
    ks = set()
    fill_end = ref['fill_done'] or 0
    ks.update(range(1, min(T, fill_end + 50) + 1))
    for (n, _) in ref['nact_changes']:
        ks.update(x for x in (n - 2, n - 1, n, n + 1) if 1 <= x <= T)
    ks.update(range(max(1, T - 30), T + 1))
    sites = ref['sites']
    site_list = ref['site_list']
    seen = {}
    span_sids = set()
    for i, s in enumerate(sites):
        sid = s & ~Tracer.SPAN_BIT
        seen.setdefault(sid, []).append(i + 1)
        if s & Tracer.SPAN_BIT:
            span_sids.add(sid)
    for sid, occ in seen.items():
        ks.add(occ[0])
        ks.add(occ[rnd.randrange(len(occ))])
        if site_list[sid][1] in INTERESTING or sid in span_sids:
            for _ in range(2):
                ks.add(occ[rnd.randrange(len(occ))])
    inspan = [i + 1 for i, s in enumerate(sites) if s & Tracer.SPAN_BIT]
    if inspan:
        for _ in range(min(len(inspan), P['sample'] // 3)):
            ks.add(inspan[rnd.randrange(len(inspan))])
    # stratified random sample of the rest
    S = P['sample']
    for j in range(S):
        lo = 1 + (T * j) // S
        hi = max(lo, (T * (j + 1)) // S)
        ks.add(rnd.randint(lo, hi))
    if len(ks) > P['max_k']:
        # a very long count: keep the header window and the action boundaries, thin out the rest
        keep = set(range(1, min(T, fill_end + 50) + 1))
        for (n, _) in ref['nact_changes']:
            keep.update(x for x in (n - 1, n) if 1 <= x <= T)
        keep &= ks
        rest = sorted(ks - keep)
        room = max(0, P['max_k'] - len(keep))
        if len(rest) > room:
            rest = rnd.sample(rest, room)
        ks = keep | set(rest)
    return sorted(ks), False


def opcode_schedule(ref_op, P, rnd):
    "opcode-event numbers: the header/action spans (strided by tier) plus a random sample"
    T = ref_op['T']
    sites = ref_op['sites']
    ks = set()
    stride = P['op_stride']
    off = rnd.randrange(stride) if stride > 1 else 0
    for i, s in enumerate(sites):
        if s & Tracer.SPAN_BIT and (i + off) % stride == 0:
            ks.add(i + 1)
    if len(ks) > P['op_max']:
        # a large election: keep the earliest in-span instants (header fill, first actions) and a seeded sample
        ordered = sorted(ks)
        head = ordered[:P['op_max'] // 3]
        ks = set(head) | set(rnd.sample(ordered[len(head):], P['op_max'] - len(head)))
    for _ in range(P['op_random']):
        ks.add(rnd.randint(1, T))
    return sorted(ks)


# --------------------------------------------------------------------------
# one case
# --------------------------------------------------------------------------

_CORPUS = None


def _corpus():
    "the test/blt files of the tree under test (<= 3 kB), loaded once"
    global _CORPUS      # pylint: disable=global-statement
    if _CORPUS is None:
        try:
            _CORPUS = gen.load_corpus(get_repo().path, 3072)
        except Exception:       # pylint: disable=broad-except
            _CORPUS = []
    return _CORPUS


def make_case(seed, idx, tier):
    "deterministic case idx: (election, options, text, raw bytes, per-case PRNG)"
    rnd = rng(seed, 'intr', idx)
    rule = gen.RULES[idx % len(gen.RULES)]
    if tier == 'thorough' and idx % 10 == 9:
        # a file of the package's own test corpus, under the rule its directory names (else the cycled rule)
        corpus = _corpus()
        if corpus:
            name, raw = corpus[(idx // 10) % len(corpus)]
            sub = name.split('/')[0] if '/' in name else None
            crule = {'cfer': 'cfer', 'meek': 'meek', 'mpls': 'mpls', 'qpq': 'qpq', 'scotland': 'scotland'}.get(sub, rule)
            try:
                text = raw.decode('utf-8-sig')
                o = gen.gen_options(rnd, rule=crule, n=9)
                return dict(corpus=name), o, text, raw, rnd
            except UnicodeDecodeError:
                pass
    if idx % 6 == 4:
        # an election solved for numeric coincidences (totals exactly on the quota, zero surpluses, one-unit transfers)
        e, o = gen.gen_coincidence(rnd, rule)
        text = gen.render_blt(e, rnd)
        return e, o, text, gen.encode_blt(text, rnd), rnd
    if idx % 50 == 21:
        # exact (rational) Meek/Warren on a tiny election, displayed more coarsely than omega: what the count prints
        # about a surplus below omega then depends on display handling that the default (display 12, omega 10) hides
        rule = ('meek', 'warren')[(idx // 50) % 2]
        e = gen.gen_election(rnd, rule=rule, small=True, flags=dict(huge_mult=False, big_mult=False))
        e['ballots'] = e['ballots'][:5]
        elig = [c for c in range(1, e['n'] + 1) if c not in e['withdrawn']]
        e['ballots'].append([1 if e['ids'] else len(elig), [[c] for c in elig]])
        while e['ids'] and len(e['ballots']) < len(elig):
            e['ballots'].append([1, [[elig[0]]]])
        om = rnd.randint(3, 8)
        o = {'rule': rule, 'arithmetic': 'rational', 'omega': om, 'display': rnd.randint(0, om)}
        if rnd.random() < 0.3:
            o['defeat_batch'] = rnd.choice(('none', 'safe'))
        text = gen.render_blt(e, rnd)
        return e, o, text, gen.encode_blt(text, rnd), rnd
    if idx % 150 == 77:
        # a long count: 55-70 candidates, few seats, one elimination per round -- more than fifty rounds
        rule = ('wigm', 'scotland', 'meek', 'mpls', 'wigm-prf', 'cfer')[(idx // 150) % 6]
        e, o, text = gen.gen_case(rnd, rule=rule, xlarge='xx', flags=dict(withdrawn=False, undeclared=False,
                                                                           tie_heavy=False, huge_mult=False))
        e['seats'] = min(e['seats'], 3)
        text = gen.render_blt(e, rnd)
        return e, o, text, gen.encode_blt(text, rnd), rnd
    r = rnd.random()
    xlarge = r > (0.985 if tier == 'quick' else 0.96)       # 20-30 candidates, 40-120 ballot lines
    large = (not xlarge) and r > (0.94 if tier == 'quick' else 0.85)
    small = (not large) and (not xlarge) and r < (0.66 if tier == 'quick' else 0.4)
    e, o, text = gen.gen_case(rnd, rule=rule, small=small, slow_ok=(rnd.random() < 0.3), large=large, xlarge=xlarge)
    raw = gen.encode_blt(text, rnd)
    return e, o, text, raw, rnd


def case_clock(idx):
    "simulated seconds per line event for case idx: none (real clocks untouched), 1 ms, 50 ms, 2 s (swarm style)"
    return (None, 0.001, 0.05, 2.0, 0.001, None)[(idx // 3) % 6]


def case_tty(idx):
    "does the simulated console of case idx claim to be a terminal?"
    return (idx // 11) % 2 == 1


def probe_case(R, seed, idx, tier):
    "cheap look at candidate case idx: which package lines its uninterrupted count executes (for pool selection)"
    signal.signal(signal.SIGINT, signal.default_int_handler)
    _, o, text, _, _ = make_case(seed, idx, tier)
    _core.SINK_TTY = case_tty(idx)
    _core.CLOCK_RATE = case_clock(idx)
    ref = run_reference(R, text, o, 'line', ref_budget(idx, tier))
    if not ref['ok']:
        return dict(idx=idx, ok=False, why=ref['why'], T=0, lines=frozenset())
    counts = {}
    for sid in ref['sites']:
        sid &= ~Tracer.SPAN_BIT
        counts[sid] = counts.get(sid, 0) + 1
    hits = {}
    for sid, c in counts.items():
        s_ = ref['site_list'][sid]
        hits["%s:%d" % (s_[0], s_[2])] = c
    return dict(idx=idx, ok=True, why=None, T=ref['T'], lines=frozenset(hits), hits=hits,
                coin=coincidence_features(ref['actions'], o.get('rule')))


def coincidence_features(actions, rule):
    """numeric coincidences visible in the canonical actions of a reference count (for pool selection only, never an
    oracle): a candidate's vote exactly on / one raw unit off the quota, two consecutive actions showing the same
    candidate state, equal votes among hopefuls, a transfer that moved nothing."""
    feats = set()
    prev = None
    for s_ in actions:
        try:
            a = json.loads(s_)
        except ValueError:
            continue
        if not isinstance(a, dict) or 's:cstate' not in a:
            continue
        tag = a.get('s:tag')
        q = a.get('s:quota')
        cs = a.get('s:cstate') or {}
        try:
            qv = q[1] if isinstance(q, list) and q[0] in ('F', 'G') else None
            votes = {}
            for cid, st in cs.items():
                v = st.get('s:vote')
                if isinstance(v, list) and v[0] in ('F', 'G') and isinstance(v[1], int):
                    votes[cid] = (v[1], st.get('s:code'))
            if isinstance(qv, int):
                for cid, (v, code) in votes.items():
                    d = v - qv
                    if d == 0:
                        feats.add(('on-quota', rule, tag, code))
                    elif abs(d) == 1:
                        feats.add(('off-by-one-unit', rule, tag, code, d))
            hv = sorted(v for v, code in votes.values() if code == 'H')
            if len(hv) >= 2 and tag in ('round', 'defeat', 'elect', 'tie'):
                if hv[0] == hv[1]:
                    feats.add(('lowest-tied', rule, tag))
                if hv[-1] == hv[-2]:
                    feats.add(('highest-tied', rule, tag))
            key = (json.dumps(cs, sort_keys=True), json.dumps(a.get('s:votes')))
            if prev is not None and prev[1] == key:
                feats.add(('same-state', rule, prev[0], tag))
            prev = (tag, key)
            m_ = str(a.get('s:msg', ''))
            if tag == 'transfer' and m_.rstrip(')').rstrip('0').rstrip('.').endswith('(0') or m_.endswith('(0)'):
                feats.add(('transfer-of-zero', rule))
        except Exception:       # pylint: disable=broad-except
            continue
    return feats


def _bucket(c):
    "AFL-style hit-count bucket"
    if c <= 3:
        return c
    if c <= 7:
        return 4
    if c <= 15:
        return 8
    if c <= 31:
        return 16
    if c <= 127:
        return 32
    return 128


def select_cases(probes, n, novel_share=0.3, t_cap=200_000, coin_share=0.15):
    """choose n case indices out of the probed pool: first those whose count executes package lines no earlier
    candidate executed (rare rule branches: stable states, zero batches, ties broken ...), at most novel_share*n of
    them; then the earliest remaining indices.  Deterministic: depends only on the probes, in index order."""
    okp = [p for p in probes if p['ok'] and p['T'] <= t_cap]
    # lines that few candidates reach at all; for those, how OFTEN a count executes them matters too (a branch
    # taken twice in one count is a different behaviour from the same branch taken once)
    freq = {}
    for p in okp:
        for ln in p['lines']:
            freq[ln] = freq.get(ln, 0) + 1
    rare = set(ln for ln, c in freq.items() if c <= max(2, len(okp) // 30))
    seen = set()
    novel = []
    for p in okp:
        feats = set(p['lines'])
        feats.update((ln, _bucket(c)) for ln, c in p.get('hits', {}).items() if ln in rare)
        if feats - seen:
            seen |= feats
            if p['idx'] >= n:           # the first n are taken anyway
                novel.append(p['idx'])
    novel = novel[:int(n * novel_share)]
    # numeric coincidences (a vote exactly on the quota, a transfer that changes nothing, ties): cases that show a
    # coincidence feature no earlier candidate showed, at most coin_share*n of them
    seen_c = set()
    coin = []
    for p in okp:
        fc = p.get('coin') or set()
        if fc - seen_c:
            seen_c |= fc
            if p['idx'] >= n and p['idx'] not in novel:
                coin.append(p['idx'])
    coin = coin[:int(n * coin_share)]
    extra = set(novel) | set(coin)
    rest = [p['idx'] for p in probes if p['idx'] not in extra][:n - len(extra)]
    return sorted(set(rest) | extra), novel, coin


def _same_ref(a, b):
    return a['T'] == b['T'] and a['actions'] == b['actions'] and a['rend'] == b['rend']


def site_str(site):
    return "%s:%d" % (site[0], site[2])


def run_case(R, seed, idx, tier):
    """run every scheduled interrupted execution of case idx; returns a result dict."""
    import hashlib      # pylint: disable=import-outside-toplevel
    signal.signal(signal.SIGINT, signal.default_int_handler)
    P = PARAMS[tier]
    e, o, text, raw, rnd = make_case(seed, idx, tier)
    _core.SINK_TTY = case_tty(idx)      # every other case counts with a console that says it is a terminal
    _core.CLOCK_RATE = case_clock(idx)  # and most cases see a simulated clock driven by the step clock
    out = dict(idx=idx, rule=o['rule'], options=o, explored=False, why=None, execs=0, steps=0,
               viol=[], keys=set(), ref_sites=set(), inj_sites=set(), probes={}, faults={}, T=0, exhaustive=False,
               sample=None, crosschecked=0)
    probes = out['probes']
    oh = hashlib.sha1()

    def probe(name, n=1):
        probes[name] = probes.get(name, 0) + n

    ref = run_reference(R, text, o, 'line', ref_budget(idx, tier))
    if not ref['ok']:
        out['why'] = ref['why']
        return out
    out['T'] = ref['T']
    out['steps'] += ref['T']
    rule = o['rule']
    for s_ in ref['site_list']:
        out['ref_sites'].add(site_str(s_))
    nF = len(ref['actions'])

    def account(sm):
        "book one interrupted execution (summary dict)"
        out['execs'] += 1
        st = sm.get('status')
        oh.update(("%s/%s/%s/%s/%s/%s|" % (sm.get('event'), sm.get('k'), sm.get('driver'), st,
                                           (sm.get('fired') or {}).get('site'), sm.get('rhash'))).encode())
        if st == 'completed':
            probe('swallowed_unraisable' if sm.get('fired') is not None else 'not_reached')
            return
        if st not in ('interrupted', 'swallowed'):
            probe('faulted_' + str(st))
            return
        fired = sm['fired']
        site = fired['site']
        for viol in sm['viols']:
            viol = dict(viol)
            viol.update(idx=idx, event=sm['event'], k=sm['k'], mech=sm['mech'], order=list(sm['order']),
                        driver=sm['driver'], flags=sm.get('flags'), site=list(site), header=fired['header'],
                        count_stdout_closed=bool(sm.get('count_stdout_closed')))
            out['viol'].append(viol)
        if st == 'swallowed':
            probe('swallowed_by_package')
            return
        fkey = '%s/%s/%s' % (sm['event'], sm['mech'], sm['driver'])
        out['faults'][fkey] = out['faults'].get(fkey, 0) + 1
        out['inj_sites'].add(site_str(site))
        stack = fired['stack']
        in_action = 'action' in stack
        if fired['nact'] < nF:
            out['keys'].add("%s|%s|%s|%d" % (rule, site_str(site), fired['header'], in_action))
        if fired['header'] == 'absent':
            probe('before_fill')
        elif fired['header'] == 'partial':
            probe('inside_fill')
        if in_action:
            probe('inside_action_builder')
        if 'copy' in stack:
            probe('inside_rounds_copy')
        if not site[0].startswith('droop'):
            probe('inside_stdlib_code')
        if site[0].startswith('droop/values'):
            probe('inside_values_code')
        if site[0].startswith('droop/rules'):
            probe('inside_rule_code')
        if fired['in_gen']:
            probe('inside_generator')
        if fired['nact'] >= nF:
            probe('after_end_action')
        if sm.get('count_exc') not in (None, 'KeyboardInterrupt'):
            probe('count_exc_' + sm['count_exc'])
            if sm['driver'] == 'api':
                converted.append(sm)
        if sm.get('nmark', 0) > 1:
            probe('markers>1')
        if sm.get('unraisable'):
            probe('unraisable_seen')
        if sm.get('stdout_closed'):
            probe('rendered_with_closed_stdout')
        if sm.get('count_stdout_closed'):
            probe('counted_with_closed_stdout')

    converted = []      # executions in which count() let out something other than KeyboardInterrupt

    def confirm_converted(ref_):
        """count() turned the interrupt into another exception.  Through the API the record can still be rendered;
        whether the user still gets a report is decided by the package's own driver: repeat the instant through
        Droop.main, which reports main-diverges if the exception escapes it."""
        if R.Droop is None:
            return
        seen = set()
        for sm in list(converted):
            key = (sm['event'], sm['count_exc'], (sm['fired'] or {}).get('site'))
            if key in seen or len(seen) >= 6:
                continue
            seen.add(key)
            res = run_faulted(R, text, o, sm['event'], sm['k'], 'raise', (), 'main', {'report', 'dump', 'json'}, raw,
                              closed_count=bool(sm.get('count_stdout_closed')))
            out['steps'] += sm['k']
            probe('converted_interrupt_confirmed_through_driver')
            account(summarise(ref_, res))
        del converted[:]

    def sweep(ref_, event, schedule, budget):
        """execute a schedule {k: [(mech, order)...]}: early instants by plain re-run (cheaper than a fork, whose
        child pays copy-on-write faults), late instants by the fork-at-instant sweep, with a seeded sample of the
        forked ones cross-checked against the re-run path"""
        cut = FORK_FROM[event]
        late = {k: v for k, v in schedule.items() if k > cut}
        for k in sorted(schedule):
            if k > cut:
                break
            for (mech, order) in schedule[k]:
                res = run_faulted(R, text, o, event, k, mech, order, 'api',
                                  closed_count=count_stdout_closed_at(k, ref_))
                out['steps'] += k
                account(summarise(ref_, res))
        if not late:
            return True
        results, final = sweep_api(R, text, o, event, late, ref_, budget)
        if results is None:
            probe('sweep_failed_' + str(final))
            return False
        if final != ref_['actions']:
            out['why'] = 'reference-unstable'
            return False
        for sm in results:
            if sm.get('status') in ('child-died', 'child-garbled', 'child-error'):
                out['why'] = 'sweep-%s' % sm.get('status')
                out['detail'] = sm.get('err')
                return False
            out['steps'] += sm['k']
            account(sm)
        # cross-check: the same injection through the plain re-run path must give the same summary
        pool = [sm for sm in results if sm.get('status') in ('interrupted', 'swallowed')]
        for sm in (rnd.sample(pool, min(len(pool), P['crosscheck'])) if pool else ()):
            res2 = run_faulted(R, text, o, event, sm['k'], sm['mech'], tuple(sm['order']), 'api')
            sm2 = summarise(ref_, res2)
            out['crosschecked'] += 1
            same = (sm2['status'] == sm['status'] and sm2['rhash'] == sm['rhash'] and
                    [vclass(x) for x in sm2['viols']] == [vclass(x) for x in sm['viols']] and
                    (sm2['fired'] or {}).get('site') == (sm['fired'] or {}).get('site'))
            if not same:
                out['why'] = 'sweep-rerun-mismatch'
                out['detail'] = dict(k=sm['k'], event=event, sweep=[sm['status'], sm['rhash'], sm['fired'], sm['viols']],
                                     rerun=[sm2['status'], sm2['rhash'], sm2['fired'], sm2['viols']])
                return False
        return True

    # ---- line level
    ks, exhaustive = line_schedule(ref, P, rnd)
    out['exhaustive'] = exhaustive
    salt = rnd.randrange(len(ORDERS))
    window = (ref['fill_done'] or 0) + 50
    schedule = {}
    for k in ks:
        mech = 'sigint' if rnd.random() < P['sigint'] else 'raise'
        ent = [(mech, ORDERS[(k + salt) % len(ORDERS)])]
        if k <= window:
            for j in range(1, P['window_orders']):
                ent.append(('raise', ORDERS[(k + salt + 5 * j) % len(ORDERS)]))
        schedule[k] = ent
    if not sweep(ref, 'line', schedule, ref_budget(idx, tier)):
        if out['why']:
            out['dropped_viol'] = len(out['viol'])
            out['viol'] = []
            return out
    confirm_converted(ref)
    kmid = ks[len(ks) // 2]
    out['sample'] = dict(blt=text, options=o, event='line', k=kmid, mech='raise',
                         order=list(ORDERS[(kmid + salt) % len(ORDERS)]), driver='api',
                         T=ref['T'], n_injection_points=len(ks), exhaustive=exhaustive)

    # ---- driver mode (plain re-run path)
    deferred = []
    if R.Droop is not None and rnd.random() < P['main_cases'] and ref['T'] <= LONG_COUNT:
        T = ref['T']
        mk = set()
        for _ in range(P['main_k'] // 3):
            mk.add(rnd.randint(1, min(T, window)))
        for (n, _) in ref['nact_changes']:
            if rnd.random() < 0.3:
                mk.add(min(T, max(1, n + rnd.choice((-1, 0, 1)))))
        while len(mk) < P['main_k'] and len(mk) < T:
            mk.add(rnd.randint(1, T))
        flagsets = [{'report'}, {'dump'}, {'json'}, {'report', 'dump'}, {'report', 'json'}, {'dump', 'json'},
                    {'report', 'dump', 'json'}]
        for j, k in enumerate(sorted(mk)):
            fl = set(flagsets[(j + salt) % len(flagsets)])
            if rnd.random() < P['cprofile']:
                # Droop.main's cProfile path changes the interpreter's instrumentation state (it shifts the
                # numbering of opcode events for the rest of the process): these runs go last
                fl.add('profile')
                deferred.append((k, fl))
                continue
            res = run_faulted(R, text, o, 'line', k, 'raise', (), 'main', fl, raw)
            out['steps'] += k
            account(summarise(ref, res))
        # the whole program: Droop.py run as __main__ with a command line (every option a string), output not a
        # terminal, the interrupt a real SIGINT under whatever disposition the program installed; each in its own child
        mks = sorted(mk)
        for j in range(min(P['cli_k'], len(mks))):
            k = mks[(j * 7 + salt) % len(mks)]
            fl = set(flagsets[(j + salt + 3) % len(flagsets)])
            res = run_faulted(R, text, o, 'line', k, 'sigint', (), 'cli', fl, raw)
            out['steps'] += k
            account(summarise(ref, res))
            probe('cli_program_runs')
    elif R.Droop is None:
        probe('driver_unavailable')

    # ---- opcode level
    if rnd.random() < P['op_cases'] and ref['T'] <= LONG_COUNT:
        ref_op = run_reference(R, text, o, 'opcode', ref_budget(idx, tier) * 8)
        if ref_op['ok'] and ref_op['actions'] == ref['actions']:
            out['steps'] += ref_op['T']
            sched = {k: [('raise', ORDERS[(k + salt) % len(ORDERS)])] for k in opcode_schedule(ref_op, P, rnd)}
            if not sweep(ref_op, 'opcode', sched, ref_budget(idx, tier) * 8):
                if out['why']:
                    out['dropped_viol'] = len(out['viol'])
                    out['viol'] = []
                    return out
            confirm_converted(ref_op)
            probe('opcode_cases')
        else:
            probe('opcode_ref_unusable')

    # ---- instants inside standard-library code called from the package (fractions, copy, sort keys ...)
    if rnd.random() < P['x_cases'] and ref['T'] <= LONG_COUNT:
        ref_x = run_reference(R, text, o, 'xline', ref_budget(idx, tier) * 3)
        if ref_x['ok'] and ref_x['actions'] == ref['actions']:
            foreign = {}
            for i, sid in enumerate(ref_x['sites']):
                sid &= ~Tracer.SPAN_BIT
                if not ref_x['site_list'][sid][0].startswith('droop'):
                    foreign.setdefault(sid, []).append(i + 1)
            ksx = set()
            for sid, occ in foreign.items():
                ksx.add(occ[0])
                ksx.add(occ[rnd.randrange(len(occ))])
            allocc = [k for occ in foreign.values() for k in occ]
            for _ in range(min(len(allocc), P['x_max'])):
                ksx.add(allocc[rnd.randrange(len(allocc))])
            ksx = sorted(ksx)[:P['x_max'] * 2]
            if ksx:
                out['steps'] += ref_x['T']
                sched = {k: [('raise', ORDERS[(k + salt) % len(ORDERS)])] for k in ksx}
                if not sweep(ref_x, 'xline', sched, ref_budget(idx, tier) * 3):
                    if out['why']:
                        out['dropped_viol'] = len(out['viol'])
                        out['viol'] = []
                        return out
                confirm_converted(ref_x)
                probe('stdlib_frame_cases')
        else:
            probe('xline_ref_unusable')

    # ---- reference stability (history dependence is C20's subject, not ours)
    ref2 = run_reference(R, text, o, 'line', ref_budget(idx, tier))
    if not ref2['ok'] or not _same_ref(ref, ref2):
        out['why'] = 'reference-unstable'
        out['dropped_viol'] = len(out['viol'])
        out['viol'] = []
        return out
    for (k, fl) in deferred:
        res = run_faulted(R, text, o, 'line', k, 'raise', (), 'main', fl, raw)
        out['steps'] += k
        account(summarise(ref, res))
        probe('driver_cprofile_runs')
    out['explored'] = True
    out['outcome_hash'] = oh.hexdigest()[:16]
    return out


def warmup(R):
    "Python 3.12 enables opcode events lazily: do one traced run and insist on seeing opcode events"
    text = "3 1\n2 1 2 0\n2 2 3 0\n1 3 0\n0\n\"A\"\n\"B\"\n\"C\"\n\"warm\"\n"
    for _ in range(2):
        ref = run_reference(R, text, {'rule': 'wigm'}, 'opcode', 2_000_000)
        if ref['ok'] and ref['T'] > 0:
            return ref['T']
    return 0


# --------------------------------------------------------------------------
# replay and minimisation
# --------------------------------------------------------------------------

import base64


def replay_object(R, seed, viol, text, raw, options):
    "the replay file content of one violation"
    return dict(property='C19', verif_seed=seed, run=viol['idx'], engine='intr',
                case=dict(blt=text, raw_b64=base64.b64encode(raw).decode('ascii'), options=options),
                console=dict(tty=bool(_core.SINK_TTY), clock_rate=_core.CLOCK_RATE,
                             closed_during_count=bool(viol.get('count_stdout_closed')) and viol['driver'] == 'main'),
                fault=dict(mechanism=viol['mech'], event=viol['event'], k=viol['k'],
                           site="%s:%s:%d" % tuple(viol['site']) if viol.get('site') else None),
                renderers=viol['order'], driver=viol['driver'], flags=viol.get('flags'),
                violation={k: viol.get(k) for k in ('cls', 'what', 'exc', 'msg', 'frame', 'line_text', 'index',
                                                     'got', 'want', 'header')},
                tree=R.tree)


def run_replay(R, obj, tier='quick'):
    "re-execute exactly the interrupted execution a replay file describes; returns its violations"
    signal.signal(signal.SIGINT, signal.default_int_handler)
    text = obj['case']['blt']
    raw = base64.b64decode(obj['case']['raw_b64']) if obj['case'].get('raw_b64') else text.encode('utf-8')
    o = obj['case']['options']
    f = obj['fault']
    event = f['event']
    _core.SINK_TTY = bool((obj.get('console') or {}).get('tty'))
    _core.CLOCK_RATE = (obj.get('console') or {}).get('clock_rate')
    # the reference is computed in a child of its own, so that the interrupted execution below is the first count
    # of this process (some violations show only then)
    ref = ref_in_child(R, text, o, event, 4_000_000 * (8 if event == 'opcode' else 3 if event == 'xline' else 1))
    if not ref['ok']:
        return None, 'reference: ' + ref['why']
    flags = set(obj['flags']) if obj.get('flags') else None
    res = run_faulted(R, text, o, event, f['k'], f['mechanism'], tuple(obj['renderers']), obj['driver'], flags, raw,
                      closed_count=(obj['driver'] == 'api' and count_stdout_closed_at(f['k'], ref)) or
                      bool((obj.get('console') or {}).get('closed_during_count')))
    viols = check(ref, res)
    for v in viols:
        v.update(event=event, k=f['k'], mech=f['mechanism'], order=list(obj['renderers']), driver=obj['driver'],
                 flags=obj.get('flags'), idx=obj.get('run'),
                 site=list(res['fired']['site']) if res.get('fired') else None,
                 header=res['fired']['header'] if res.get('fired') else None)
    return viols, res.get('status')


def _find(R, text, raw, o, target, event, order, driver, flags, mech, ks, force_closed=False, child_ref=False):
    "first k of ks at which the target violation class shows; (k, viol) or None"
    budget = 4_000_000 * (8 if event == 'opcode' else 3 if event == 'xline' else 1)
    ref = ref_in_child(R, text, o, event, budget) if child_ref else run_reference(R, text, o, event, budget)
    if not ref['ok']:
        return None
    for k in ks:
        if k > ref['T']:
            break
        res = run_faulted(R, text, o, event, k, mech, order, driver, flags, raw,
                          closed_count=(driver == 'api' and count_stdout_closed_at(k, ref)) or force_closed)
        for v in check(ref, res):
            if vclass(v) == target:
                v = dict(v)
                v.update(event=event, k=k, mech=mech, order=list(order), driver=driver,
                         flags=sorted(flags) if flags else None,
                         site=list(res['fired']['site']), header=res['fired']['header'],
                         count_stdout_closed=bool(res.get('count_stdout_closed')))
                return k, v
    return None


def ref_in_child(R, text, o, event, budget):
    "the uninterrupted reference, computed in a forked child: the calling process has then still never counted"
    return _core.fork_call(run_reference, (R, text, o, event, budget), timeout=600, what='C19 reference')


def pristine_ref(task):
    "reference of case idx for the pristine arm (runs in a child of its own); None if unusable"
    R, seed, idx, tier = task
    signal.signal(signal.SIGINT, signal.default_int_handler)
    _, o, text, _, _ = make_case(seed, idx, tier)
    _core.SINK_TTY = case_tty(idx)
    _core.CLOCK_RATE = case_clock(idx)
    ref = run_reference(R, text, o, 'line', ref_budget(idx, tier))
    if not ref['ok'] or ref['T'] > LONG_COUNT:
        return None
    return dict(ok=True, T=ref['T'], actions=ref['actions'], rend=ref['rend'], fill_done=ref['fill_done'],
                progress_chars=ref.get('progress_chars'))


def pristine_exec(task):
    """ONE interrupted execution of case idx as the first count its process ever runs (the child is forked from a
    parent that imported the package and never built an Election).  Every other execution of the engine follows a
    reference count in the same process; state that only the FIRST count of a process builds (a lazily filled cache,
    a once-only initialisation) is interrupted half-way only here."""
    R, seed, idx, tier, ref, k, order = task
    signal.signal(signal.SIGINT, signal.default_int_handler)
    _, o, text, raw, _ = make_case(seed, idx, tier)
    _core.SINK_TTY = case_tty(idx)
    _core.CLOCK_RATE = case_clock(idx)
    res = run_faulted(R, text, o, 'line', k, 'raise', order, 'api', None, raw)
    out = []
    for v in check(ref, res):
        v = dict(v)
        fired = res.get('fired') or {}
        v.update(idx=idx, event='line', k=k, mech='raise', order=list(order), driver='api', flags=None,
                 site=list(fired.get('site') or ('?', '?', 0)), header=fired.get('header'),
                 count_stdout_closed=False, pristine=True)
        out.append(v)
    return dict(idx=idx, k=k, status=res.get('status'), viol=out)


def confirm_pristine(R, seed, viol, tier):
    """does this one interrupted execution show its violation class when it is the ONLY interrupted count the process
    has ever run?  Runs in a forked child.  A case explores thousands of interrupted counts in one process; on a tree
    where an interrupted count leaves state behind, later executions of the case can fail although each of them, alone,
    would not -- that is history dependence (C20's subject), and must not be reported under C19."""
    signal.signal(signal.SIGINT, signal.default_int_handler)
    idx = viol['idx']
    _, o, text, raw, _ = make_case(seed, idx, tier)
    _core.SINK_TTY = case_tty(idx)
    _core.CLOCK_RATE = case_clock(idx)
    flags = set(viol['flags']) if viol.get('flags') else None
    force_closed = bool(viol.get('count_stdout_closed')) and viol['driver'] == 'main'
    got = _find(R, text, raw, o, vclass(viol), viol['event'], tuple(viol['order']), viol['driver'], flags,
                viol['mech'], [viol['k']], force_closed, child_ref=True)
    return got is not None


def minimise(R, seed, viol, tier, budget_tests=60):
    """shrink a violation: smallest k of the same class, then fewer ballot lines, plain layout, fewer options.

    Runs in a forked child.  Returns (replay object).  Deterministic.
    """
    signal.signal(signal.SIGINT, signal.default_int_handler)
    idx = viol['idx']
    e, o, text, raw, _ = make_case(seed, idx, tier)
    target = vclass(viol)
    event, mech, order, driver = viol['event'], viol['mech'], tuple(viol['order']), viol['driver']
    flags = set(viol['flags']) if viol.get('flags') else None
    best = dict(viol)
    best_text, best_raw, best_o = text, raw, dict(o)

    def ks_upto(kmax):
        if kmax <= 800:
            return list(range(1, kmax + 1))
        step = max(1, kmax // 400)
        return list(range(1, 401)) + list(range(401, kmax, step)) + [kmax]

    force_closed = bool(viol.get('count_stdout_closed')) and driver == 'main'
    _core.SINK_TTY = case_tty(idx)
    _core.CLOCK_RATE = case_clock(idx)
    got = _find(R, text, raw, o, target, event, order, driver, flags, mech, ks_upto(viol['k']), force_closed)
    if got:
        best = dict(got[1], idx=idx)
    tests = [0]

    def attempt(e2, o2):
        tests[0] += 1
        if tests[0] > budget_tests:
            return None
        t2 = gen.render_blt(e2, plain=True)
        try:
            R.droop.profile.ElectionProfile(data=t2)
        except Exception:       # pylint: disable=broad-except
            return None
        r2 = t2.encode('utf-8')
        g = _find(R, t2, r2, o2, target, event, order, driver, flags, mech, ks_upto(max(best['k'] * 2, 300)),
                  force_closed)
        if g:
            return t2, r2, g
        return None

    cur_e = dict(e)
    a = attempt(cur_e, best_o) if 'ballots' in cur_e else None      # corpus cases have no abstract election
    if a:
        best_text, best_raw = a[0], a[1]
        best = dict(a[2][1], idx=idx)

        def test_ballots(bl):
            e2 = dict(cur_e, ballots=bl)
            a2 = attempt(e2, best_o)
            return a2 is not None
        small = ddmin(cur_e['ballots'], test_ballots, max_tests=25)
        e2 = dict(cur_e, ballots=small)
        a2 = attempt(e2, best_o)
        if a2:
            cur_e = e2
            best_text, best_raw = a2[0], a2[1]
            best = dict(a2[2][1], idx=idx)
        for key in [k for k in sorted(best_o) if k != 'rule']:
            o2 = {k: v for k, v in best_o.items() if k != key}
            a3 = attempt(cur_e, o2)
            if a3:
                best_o = o2
                best_text, best_raw = a3[0], a3[1]
                best = dict(a3[2][1], idx=idx)
    return replay_object(R, seed, best, best_text, best_raw, best_o)
