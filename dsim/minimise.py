"""ddmin and friends: shrink a list while a predicate keeps holding (DESIGN 4.8)."""


def ddmin(items, test, max_tests=400):
    """smallest sublist (1-minimal up to the test budget) of items for which test(sublist) is True.

    test(items) is assumed True on entry.  Deterministic: no randomness, no clock.
    """
    items = list(items)
    n = 2
    tests = 0
    while len(items) >= 2 and tests < max_tests:
        chunk = max(1, len(items) // n)
        subsets = [items[i:i + chunk] for i in range(0, len(items), chunk)]
        reduced = False
        for i, sub in enumerate(subsets):
            tests += 1
            if tests > max_tests:
                break
            if test(sub):
                items = sub
                n = 2
                reduced = True
                break
        if not reduced:
            for i in range(len(subsets)):
                comp = [x for j, s in enumerate(subsets) if j != i for x in s]
                if not comp:
                    continue
                tests += 1
                if tests > max_tests:
                    break
                if test(comp):
                    items = comp
                    n = max(n - 1, 2)
                    reduced = True
                    break
        if not reduced:
            if n >= len(items):
                break
            n = min(len(items), n * 2)
    if len(items) == 1 and tests < max_tests:
        if test([]):
            return []
    return items


def shrink_int(value, test, lo=0):
    "smallest v in [lo, value] (by bisection towards lo, assuming rough monotonicity) with test(v) True"
    best = value
    a, b = lo, value
    while a < b:
        mid = (a + b) // 2
        if test(mid):
            best = mid
            b = mid
        else:
            a = mid + 1
    return best
