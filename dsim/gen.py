"""Workload generator: abstract elections, option grids, BLT renderer, corpus.

Everything is a pure function of the random.Random handed in.  An abstract
election is a JSON-able dict; render_blt() turns it into ballot-file text with
seeded layout choices.  The generator builds *valid* profiles by construction;
it keeps no model of what the parser should read back (that would be C15).
"""

import os

RULES = ('cfer', 'cfer-batch', 'meek', 'meek-prf', 'mpls', 'qpq', 'scotland',
         'warren', 'wigm', 'wigm-prf', 'wigm-prf-batch')
GENERIC = ('meek', 'warren', 'wigm')
STATUTORY = tuple(r for r in RULES if r not in GENERIC)

_NAME_WORDS = ['Adams', 'Baker', 'Chu', 'Diaz', 'Eve', 'Falk', 'Gray', 'Hahn', 'Ito', 'Jung',
               'Kim', 'Lund', 'Moe', 'Ngo', 'Orr', 'Pike', 'Quin', 'Roy', 'Sato', 'Tran']
_ODD_WORDS = ['#1', '/*x', 'x*/', "O'Neil", 'Zoë', 'Łuk', '李', 'a=b', '[z]', '(q)', '-3', '0', 'é', '#', '/*', '*/',
              'Uninterrupted', 'interrupted', '100%', '%d', '%s', '%(x)s', '{0}', '{', '}', '\\', '\\n', '$1', '&amp;', '<b>', '12', '1e3']


def _name(rnd, i, odd):
    "a candidate name; never starts or ends with a space, never contains a double quote"
    base = _NAME_WORDS[i % len(_NAME_WORDS)]
    if i >= len(_NAME_WORDS):
        base += str(i)
    if odd and rnd.random() < 0.5:
        parts = [base]
        for _ in range(rnd.randint(1, 2)):
            parts.insert(rnd.randint(0, len(parts)), rnd.choice(_ODD_WORDS))
        return " ".join(parts)
    if rnd.random() < 0.3:
        return base + " " + rnd.choice(_NAME_WORDS)
    return base


def gen_election(rnd, rule=None, small=False, flags=None, large=False, xlarge=False):
    """an abstract valid election.

    rule      : influences which features are offered (equal ranks for meek/warren,
                undeclared for mpls); None = neutral
    small     : keep it to <= 5 candidates and <= 8 ballot lines
    flags     : swarm switches (dict); missing keys are drawn here
    """
    f = dict(flags or {})

    def flag(name, p):
        if name not in f:
            f[name] = rnd.random() < p
        return f[name]

    r = rnd.random()
    if xlarge == 'xx':
        n = rnd.randint(55, 70)         # more than fifty rounds
    elif xlarge:
        n = rnd.randint(20, 30)
    elif large:
        n = rnd.randint(9, 14)
    elif small:
        n = rnd.choice((2, 3, 3, 4, 4, 5))
    elif r < 0.03:
        n = 12
    else:
        n = rnd.choice((2, 3, 3, 4, 4, 4, 5, 5, 6, 7, 8))

    # withdrawn
    withdrawn = []
    if flag('withdrawn', 0.35) and n >= 3:
        k = rnd.randint(1, max(1, min(2, n - 2)))
        withdrawn = sorted(rnd.sample(range(1, n + 1), k))
    eligible = [c for c in range(1, n + 1) if c not in withdrawn]

    # undeclared (write-ins): mostly for mpls
    undeclared = []
    if len(eligible) >= 3 and (flag('undeclared', 0.4 if rule == 'mpls' else 0.05)):
        undeclared = sorted(rnd.sample(eligible, rnd.randint(1, min(2, len(eligible) - 2))))

    ne = len(eligible)
    if rnd.random() < 0.08:
        seats = ne
    else:
        seats = rnd.randint(1, max(1, min(ne - 1, 5)))

    # tie order
    tie = None
    if flag('tie', 0.4):
        tie = list(range(1, n + 1))
        if rnd.random() < 0.4:
            tie.reverse()
        else:
            rnd.shuffle(tie)

    # nicknames
    nick = None
    if flag('nick', 0.3):
        style = rnd.random()
        if style < 0.6:
            nick = ["c%d" % i for i in range(1, n + 1)]
        elif style < 0.85:
            nick = [chr(ord('A') + (i % 26)) + (str(i // 26) if i >= 26 else '') for i in range(n)]
        else:
            # nicknames that look like numbers: only the identity is well-formed
            nick = [str(i) for i in range(1, n + 1)]

    # ballots
    equal_ok = rule in ('meek', 'warren') and flag('equal', 0.3)
    tie_heavy = flag('tie_heavy', 0.3)
    nlines = rnd.randint(40, 120) if xlarge else rnd.randint(12, 30) if large else rnd.randint(2, 8 if small else 14)
    pool = []
    if tie_heavy:
        for _ in range(rnd.randint(1, 3)):
            p = list(range(1, n + 1))
            rnd.shuffle(p)
            pool.append(p[:rnd.randint(1, n)])
    big_mult = flag('big_mult', 0.08)
    # every multiplier in the millions: fixed-point keep factors can then no longer push the surplus below omega
    # and Meek-type iterations end in the rarely taken "stable state" branches
    huge_mult = flag('huge_mult', 0.3 if rule == 'meek-prf' else 0.15 if rule in ('meek', 'warren') else 0.03)
    huge_scale = 10 ** rnd.randint(6, 9)
    ballots = []
    for _ in range(nlines):
        if pool and rnd.random() < 0.8:
            rk = list(rnd.choice(pool))
            if rnd.random() < 0.3:
                rk = rk[:rnd.randint(1, len(rk))]
        else:
            p = list(range(1, n + 1))
            rnd.shuffle(p)
            rk = p[:rnd.randint(1, n)]
        groups = [[c] for c in rk]
        if equal_ok and len(rk) >= 2 and rnd.random() < 0.4:
            # merge some adjacent candidates into equal-rank groups
            merged = []
            i = 0
            while i < len(rk):
                w = 1
                if rnd.random() < 0.5:
                    w = rnd.randint(2, min(3, len(rk) - i)) if len(rk) - i >= 2 else 1
                merged.append(rk[i:i + w])
                i += w
            groups = merged
        if huge_mult:
            mult = rnd.randint(1, 9) * huge_scale + (rnd.randint(0, 9) if rnd.random() < 0.3 else 0)
        elif tie_heavy:
            mult = rnd.choice((1, 1, 2, 2, 3))
        elif big_mult and rnd.random() < 0.3:
            mult = 10 ** rnd.randint(2, 6) + rnd.randint(0, 9)
        else:
            mult = rnd.randint(1, 9)
        ballots.append([mult, groups])

    # validity: ballots counted (lines that keep at least one eligible candidate) >= eligible
    def counted():
        return sum(m for m, g in ballots if any(c not in withdrawn for grp in g for c in grp))
    while counted() < ne:
        p = list(eligible)
        rnd.shuffle(p)
        ballots.append([ne, [[c] for c in p[:rnd.randint(1, ne)]]])

    ids = False
    if flag('ids', 0.12) and not equal_ok:
        # ballot ids need: one id per kept ballot line, no equal ranks, no line dropped as empty
        ids = all(any(c not in withdrawn for grp in g for c in grp) for m, g in ballots)
        if ids:
            for b in ballots:
                b[0] = 1
            while counted() < ne:
                p = list(eligible)
                rnd.shuffle(p)
                ballots.append([1, [[c] for c in p[:rnd.randint(1, ne)]]])

    odd = flag('odd_names', 0.3)
    names = [_name(rnd, i, odd) for i in range(n)]
    title = rnd.choice(['Test', 'Board 2026', 'Übung №1', 'A # B', 'T /* t */', 'x'])
    source = rnd.choice(['County Clerk', 'src']) if flag('source', 0.3) else None
    comment = rnd.choice(['no comment', 'recount #2']) if (source and rnd.random() < 0.5) else None

    return dict(n=n, seats=seats, withdrawn=withdrawn, undeclared=undeclared, tie=tie, nick=nick,
                ballots=ballots, ids=ids, names=names, title=title, source=source, comment=comment,
                droop=None)


def render_blt(e, rnd=None, plain=False):
    """BLT text of an abstract election, with seeded layout choices.

    plain=True (or rnd None) gives the canonical one-ballot-per-line layout.
    """
    if rnd is None:
        plain = True

    def ch(p):
        return (not plain) and rnd.random() < p

    oneline = ch(0.12)

    def hc(p):
        "a '#' comment here? (never in the one-line layout: it would swallow the rest)"
        return (not oneline) and ch(p)

    nick = e.get('nick')

    def cname(c):
        if nick and not plain and rnd.random() < 0.8:
            return nick[c - 1]
        if nick and plain:
            return nick[c - 1]
        return str(c)

    out = []      # list of lines, each a list of tokens
    head = [str(e['n']), str(e['seats'])]
    if hc(0.2):
        out.append(['#', 'generated', 'file'])
    if ch(0.15):
        out.append(['/*', 'outer', '/*', 'inner', '*/', 'still', 'comment', '*/'])
    out.append(head)
    if hc(0.2):
        out[-1] += ['#', 'candidates', 'seats']
    if nick:
        out.append(['[nick'] + list(nick) + [']'] if ch(0.5) else ['[nick'] + list(nick[:-1]) + [nick[-1] + ']'])
    # option blocks after [nick] may come in any order (a withdrawal may precede or follow the tie list ...)
    blocks = []
    if e.get('tie'):
        toks = [cname(c) for c in e['tie']]
        blocks.append([['[tie'] + toks[:-1] + [toks[-1] + ']'] if ch(0.5) else ['[tie'] + toks + [']']])
    if e.get('droop'):
        blocks.append([['[droop'] + list(e['droop']) + [']']])
    wd = e.get('withdrawn') or []
    if wd:
        if ch(0.4):
            blocks.append([['[withdrawn'] + [cname(c) for c in wd] + [']']])
        elif ch(0.5):
            blocks.append([['-%d' % c] for c in wd])
        else:
            blocks.append([['-%d' % c for c in wd]])
    ud = e.get('undeclared') or []
    if ud:
        blocks.append([['[undeclared'] + [cname(c) for c in ud] + [']']])
    if not plain and len(blocks) > 1:
        rnd.shuffle(blocks)
    for blk in blocks:
        out.extend(blk)
    bid = 0
    for mult, groups in e['ballots']:
        line = []
        if e.get('ids'):
            bid += 1
            line.append('(b%d)' % bid if not ch(0.3) else '(ballot %d)' % bid)
        else:
            line.append(str(mult))
        for g in groups:
            line.append("=".join(cname(c) for c in g))
        line.append('0')
        if hc(0.1):
            line += ['#', 'cmt']
        if ch(0.08):
            out.append(line[:1])
            out.append(line[1:])
        else:
            out.append(line)
    out.append(['0'])
    if ch(0.1):
        out[-1] += ['/*', 'end', 'of', 'ballots', '*/']
    for nm in e['names']:
        out.append(['"%s"' % nm])
    out.append(['"%s"' % e['title']])
    if e.get('source') is not None:
        out.append(['"%s"' % e['source']])
        if e.get('comment') is not None:
            out.append(['"%s"' % e['comment']])
    if ch(0.1):
        out.append(['trailing', 'junk', 'is', 'ignored'])

    # join
    if oneline:
        text = " ".join(t for line in out for t in line) + "\n"
    else:
        sep = "\n"
        if not plain:
            r = rnd.random()
            if r < 0.15:
                sep = "\r\n"
            elif r < 0.2:
                sep = "\r"
        gap = (lambda: rnd.choice([" ", " ", "  ", "\t"])) if not plain else (lambda: " ")
        text = sep.join(gap().join(line) if len(line) > 1 else (line[0] if line else "") for line in out) + sep
        if not plain and rnd.random() < 0.1:
            text = sep + text
    return text


def encode_blt(text, rnd=None):
    "bytes as stored on disk: UTF-8, sometimes with a byte-order mark (the reader uses utf-8-sig)"
    b = text.encode('utf-8')
    if rnd is not None and rnd.random() < 0.15:
        b = b"\xef\xbb\xbf" + b
    return b


# --------------------------------------------------------------------------
# options
# --------------------------------------------------------------------------

def cli_style(rnd, o):
    """the same options as a command line delivers them: every value a string ('precision=6' arrives as '6'); the
    package turns plain digit strings into ints itself, signed or padded ones ('+7', ' 7') stay strings until the code
    that uses them converts them"""
    out = {}
    for k, v in o.items():
        if isinstance(v, bool) or k == 'rule' or not isinstance(v, int):
            out[k] = v
        elif k == 'omega' and rnd.random() < 0.8:
            out[k] = rnd.choice(('+%d', ' %d', '%d ', '0%d')) % v
        else:
            out[k] = str(v)
    return out


def gen_options(rnd, rule=None, flags=None, n=4, slow_ok=False):
    o = _gen_options(rnd, rule=rule, flags=flags, n=n, slow_ok=slow_ok)
    if rnd.random() < 0.25:
        if o.get('rule') in ('meek', 'warren') and 'omega' not in o:
            o['omega'] = rnd.randint(1, 9)
        o = cli_style(rnd, o)
    return o


def _gen_options(rnd, rule=None, flags=None, n=4, slow_ok=False):
    """an option dict for Election(profile, options): rule plus rule/arithmetic options.

    For statutory rules options are either absent or arbitrary (they are forced away).
    rational meek/warren only when the election is small (n <= 4) and slow_ok.
    """
    f = dict(flags or {})
    if rule is None:
        rule = rnd.choice(RULES)
    o = {'rule': rule}
    if rule in STATUTORY:
        if rnd.random() < 0.35:
            # arbitrary, to-be-overridden options
            if rnd.random() < 0.5:
                o['arithmetic'] = rnd.choice(('fixed', 'guarded', 'rational', 'integer'))
            if rnd.random() < 0.5:
                o['precision'] = rnd.choice((0, 2, 6, 12))
            if rnd.random() < 0.3:
                o['display'] = rnd.choice((0, 3, 9))
            if rnd.random() < 0.2:
                o['omega'] = rnd.choice((3, 7))
            if rnd.random() < 0.2:
                o['defeat_batch'] = rnd.choice(('none', 'zero', 'safe'))
        return o
    if rule == 'wigm':
        ariths = ['guarded', 'fixed', 'integer', 'rational']
    else:
        ariths = ['guarded', 'fixed']
        if slow_ok and n <= 4:
            ariths.append('rational')
    only = f.get('only_arith')
    if only in ariths:
        arith = only
    else:
        arith = rnd.choice(ariths)
    if rnd.random() < 0.85 or arith != 'guarded':
        o['arithmetic'] = arith
    if arith in ('guarded', 'fixed') and rnd.random() < 0.7:
        lo = 1 if rule != 'wigm' else 0
        o['precision'] = rnd.choice([p for p in (0, 1, 2, 3, 4, 5, 6, 8, 9, 12) if p >= lo])
    if arith == 'guarded' and rnd.random() < 0.5:
        o['guard'] = rnd.choice((0, 1, 3, 6, 9))
    if rnd.random() < 0.4:
        o['display'] = rnd.choice((0, 1, 2, 3, 5, 6, 9, 12, 14, 30))
    if rule == 'wigm':
        if rnd.random() < 0.3:
            o['integer_quota'] = rnd.choice((True, False))
        if rnd.random() < 0.3:
            o['defeat_batch'] = rnd.choice(('none', 'zero'))
    else:
        if rnd.random() < 0.4:
            o['omega'] = rnd.randint(1, 9)
        if rnd.random() < 0.3:
            o['defeat_batch'] = rnd.choice(('none', 'safe'))
    return o


def gen_case(rnd, rule=None, small=False, slow_ok=False, flags=None, large=False, xlarge=False):
    "(abstract election, options, blt text)"
    if rule is None:
        rule = rnd.choice(RULES)
    e = gen_election(rnd, rule=rule, small=small, flags=flags, large=large, xlarge=xlarge)
    o = gen_options(rnd, rule=rule, flags=flags, n=e['n'], slow_ok=slow_ok)
    if o.get('arithmetic') == 'rational' and rule in ('meek', 'warren'):
        # keep rational Meek tiny: it is exponentially slow
        e['ballots'] = e['ballots'][:5]
        ne = e['n'] - len(e['withdrawn'])
        kept = sum(m for m, g in e['ballots'] if any(c not in e['withdrawn'] for grp in g for c in grp))
        if kept < ne:
            elig = [c for c in range(1, e['n'] + 1) if c not in e['withdrawn']]
            e['ballots'].append([1 if e['ids'] else ne, [[c] for c in elig]])
            while e['ids'] and sum(1 for _ in e['ballots']) < ne:
                e['ballots'].append([1, [[elig[0]]]])
    text = render_blt(e, rnd)
    return e, o, text


_RULE_PRECISION = {'wigm-prf': 4, 'wigm-prf-batch': 4, 'cfer': 5, 'cfer-batch': 5, 'scotland': 5, 'mpls': 4,
                   'meek-prf': 9, 'qpq': 9}


def gen_coincidence(rnd, rule):
    """a valid election *solved* for numeric coincidences (DESIGN 14, wave 10 misses): vote totals that land exactly on
    the quota, surpluses of exactly zero or of one unit in the last place, transfers worth exactly one such unit, ties
    among the leaders and among the trailers.  Random elections with small multipliers practically never produce these
    under the fractional-quota rules (quota = V/(s+1) + 1 ulp).

    Construction: V = (s+1)*Q + r ballots; s+1 'big' candidates with first preferences Q+d, d in {-2..+2}; a few 'small'
    candidates with 1-3 ballots each whose next preference is a big candidate (full-value transfers on defeat); each big
    candidate has k in {0,1,1,2} single ballots naming another big candidate second (transfers worth k*tv).  With Q+1 in
    (10^p/2, 10^p) the transfer value of a surplus of 1 - 1ulp is exactly one ulp.
    returns (election, options)
    """
    s = rnd.choice((1, 1, 2, 2, 2, 3))
    nbig = s + 1
    nsmall = rnd.choice((1, 1, 2, 2, 3))
    n = nbig + nsmall
    o = {'rule': rule}
    if rule in _RULE_PRECISION:
        p = _RULE_PRECISION[rule]
    else:
        p = rnd.choice((1, 2, 3, 4, 4))
        o['arithmetic'] = rnd.choice(('fixed', 'fixed', 'guarded'))
        o['precision'] = p
        if o['arithmetic'] == 'guarded':
            o['guard'] = rnd.choice((0, 0, 1, 3))
        if rule == 'wigm' and rnd.random() < 0.35:
            o['integer_quota'] = True
        if rule != 'wigm' and rnd.random() < 0.5:
            o['omega'] = rnd.randint(1, max(1, p))
    lift = s >= 2 and rnd.random() < 0.5     # the directed pattern: A on Q+1 with ONE ballot 'A B', B on Q
    r_ = rnd.random()
    if lift:
        Q = rnd.randint(10 ** p // 2, 10 ** p - 2)
    elif p <= 5 and r_ < 0.6:
        Q = rnd.randint(10 ** p // 2, 10 ** p - 2)          # surplus 1-ulp -> transfer value exactly 1 ulp
    elif p <= 5 and r_ < 0.75:
        Q = rnd.randint(10 ** p // 3, 10 ** p // 2 - 1)     # ... exactly 2 ulp
    elif r_ < 0.9:
        Q = rnd.randint(3, 40)
    else:
        Q = 10 ** rnd.randint(1, 6)
    r = 0 if lift else rnd.choice((0, 0, 0, 0, 1, s))
    V = (s + 1) * Q + r
    small_votes = [rnd.choice((1, 1, 2, 3)) for _ in range(nsmall)]
    if rnd.random() < 0.4:
        small_votes = [small_votes[0]] * nsmall            # ties among the trailers
    L = sum(small_votes)
    offs = [rnd.choice((1, 1, 0, 0, 2, -1)) for _ in range(nbig - 1)]
    if rnd.random() < 0.3 and nbig >= 3:
        offs[1] = offs[0]                                   # ties among the leaders
    if lift:
        offs[0], offs[1] = 1, 0
    last = V - L - sum(Q + d for d in offs)
    first = [Q + d for d in offs] + [last]
    if min(first) < 1:
        first = [max(1, f) for f in first]
    # candidate numbering: a random permutation, so that tie order and position vary
    ids = list(range(1, n + 1))
    rnd.shuffle(ids)
    big = ids[:nbig]
    small = ids[nbig:]
    ballots = []
    for i, c in enumerate(big):
        f = first[i]
        k = rnd.choice((0, 1, 1, 2))
        others = [b for b in big if b != c]
        if lift and i == 0:
            ballots.append([1, [[c], [big[1]]]])
            f -= 1
        elif k and f > k and others:
            tgt = rnd.choice(others)
            for _ in range(1 if rnd.random() < 0.7 else k):
                ballots.append([1 if rnd.random() < 0.7 else k, [[c], [tgt]]])
                f -= ballots[-1][0]
        tail = []
        if rnd.random() < 0.5:
            rest_ = [x for x in ids if x != c]
            rnd.shuffle(rest_)
            tail = [[x] for x in rest_[:rnd.randint(1, len(rest_))]]
        if f >= 1:
            ballots.append([f, [[c]] + tail])
    for j, c in enumerate(small):
        tgt = rnd.choice(big)
        nxt = [[tgt]] if rnd.random() < 0.8 else []
        if rnd.random() < 0.3:
            nxt.append([rnd.choice([b for b in ids if b != c and [b] not in nxt])])
        ballots.append([small_votes[j], [[c]] + nxt])
    rnd.shuffle(ballots)
    tie = None
    if rnd.random() < 0.4:
        tie = list(range(1, n + 1))
        rnd.shuffle(tie)
    names = [_name(rnd, i, False) for i in range(n)]
    e = dict(n=n, seats=s, withdrawn=[], undeclared=[], tie=tie, nick=None, ballots=ballots, ids=False,
             names=names, title='Coincidence', source=None, comment=None, droop=None, coincidence=True)
    return e, o


def droop_tokens(o, rnd=None):
    "the tokens of a [droop ...] line that embeds the option dict o in a ballot file"
    out = []
    for k, v in sorted(o.items()):
        if k == 'rule':
            out.insert(0, str(v) if (rnd is None or rnd.random() < 0.6) else "rule=%s" % v)
        elif k == 'arithmetic' and rnd is not None and rnd.random() < 0.5:
            out.append(str(v))          # a bare arithmetic name means arithmetic=<name>
        elif isinstance(v, bool):
            out.append("%s=%s" % (k, 'true' if v else 'false'))
        else:
            out.append("%s=%s" % (k, str(v).strip()))       # a token cannot contain a blank
    return out


# --------------------------------------------------------------------------
# corpus
# --------------------------------------------------------------------------

def load_corpus(repo_path, max_bytes=3072):
    "the ballot files of test/blt not larger than max_bytes: [(relative name, bytes)] sorted by name"
    out = []
    root = os.path.join(repo_path, 'test', 'blt')
    for d, dirs, files in os.walk(root):
        dirs.sort()
        for fn in sorted(files):
            if not fn.endswith('.blt'):
                continue
            p = os.path.join(d, fn)
            try:
                if os.path.getsize(p) > max_bytes:
                    continue
                with open(p, 'rb') as fh:
                    out.append((os.path.relpath(p, root), fh.read()))
            except OSError:
                continue
    out.sort()
    return out
