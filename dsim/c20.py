"""C20 engine: a count is independent of whatever was counted before it in the process.

A session is a history of operations (elections counted and reported, interrupted
counts, help requests, failed parses) followed by a target election.  The whole
session runs in a child forked from a pristine zygote (droop imported, no
Election ever built); the target alone runs in another such child.  The oracle
is byte equality of the target's renderings (DESIGN section 7).
"""

import hashlib
import re
import signal
import sys

from . import gen
from .core import BudgetExceeded, fork_call, rng, sunk_stdout
from . import simfs
from .core import ChildFailed, VERIF_DIR
from .minimise import ddmin
from .intr import Tracer

COUNT_BUDGET = 1_200_000       # line events per count inside a session (rational Meek guard)
BIG_TEXT = 1_000_000           # renderings longer than this are compared by digest
FIXED_RULES = ('scotland', 'mpls', 'cfer', 'cfer-batch', 'meek-prf', 'wigm-prf', 'wigm-prf-batch')

_ADDR = re.compile(r' at 0x[0-9a-fA-F]+')


# --------------------------------------------------------------------------
# global-state fingerprint (coverage accounting only, never an oracle)
# --------------------------------------------------------------------------

def fingerprint():
    "dict name -> repr of every non-callable module global and class attribute under droop.*"
    out = {}
    for mname in sorted(sys.modules):
        if not (mname == 'droop' or mname.startswith('droop.') or mname == 'Droop'):
            continue
        mod = sys.modules[mname]
        if mod is None:
            continue
        for name, val in sorted(vars(mod).items()):
            if name.startswith('__') and name.endswith('__'):
                continue
            if isinstance(val, type):
                if getattr(val, '__module__', None) != mname:
                    continue
                for an, av in sorted(vars(val).items()):
                    if an.startswith('__') and an.endswith('__'):
                        continue
                    if callable(av) or isinstance(av, (classmethod, staticmethod, property)):
                        continue
                    if type(av).__name__ in ('member_descriptor', 'getset_descriptor'):
                        continue
                    out["%s.%s.%s" % (mname, name, an)] = _ADDR.sub('', repr(av))[:200]
                continue
            if callable(val) or type(val).__name__ == 'module':
                continue
            out["%s.%s" % (mname, name)] = _ADDR.sub('', repr(val))[:300]
    return out


def fp_digest(fp):
    "short digest of a fingerprint"
    h = hashlib.sha1()
    for k in sorted(fp):
        h.update(k.encode())
        h.update(b'=')
        h.update(fp[k].encode('utf-8', 'replace'))
        h.update(b'\n')
    return h.hexdigest()[:12]


# --------------------------------------------------------------------------
# executing a session (inside a forked child)
# --------------------------------------------------------------------------

def _value_class_name(options):
    "the arithmetic family the target will use, as far as options decide it"
    rule = options.get('rule')
    if rule in FIXED_RULES:
        return 'Fixed'
    if rule == 'qpq':
        return 'Guarded'
    a = options.get('arithmetic', 'guarded')
    return {'fixed': 'Fixed', 'integer': 'Fixed', 'rational': 'Rational'}.get(a, 'Guarded')


OP_WALL = 120.0            # seconds for one predecessor operation (milliseconds normally, seconds for wide ones)
OP_WALL_PARSE = 10.0       # seconds for a predecessor that only parses a damaged file


class OpTimeout(BaseException):
    "a predecessor operation did not return"


def _op_alarm(signum, frame):       # pylint: disable=unused-argument
    raise OpTimeout()


def exec_session(R, texts, ops, target, want_fp=False):
    """run the history, then the target; returns the target's outcome and an event log.

    Never raises for anything the package does: a failing predecessor is logged and the session goes on.
    """
    signal.signal(signal.SIGINT, signal.default_int_handler)
    EP = R.droop.profile.ElectionProfile
    Election = R.droop.election.Election
    pool = {}
    log = []
    batch = {}      # the shared options dict of a batch session

    def profile_for(op):
        idx = op['profile']
        if op.get('share'):
            if idx not in pool:
                pool[idx] = EP(data=texts[idx])
            return pool[idx]
        return EP(data=texts[idx])

    def shrink(t):
        "renderings of wide elections run to tens of megabytes: compare those by digest"
        if isinstance(t, str) and len(t) > BIG_TEXT:
            return 'sha1:%s length=%d\n%s' % (hashlib.sha1(t.encode('utf-8', 'replace')).hexdigest(), len(t), t[:2000])
        return t

    def render(E, order, intr):
        outs = []
        for name in order:
            outs.append([name, shrink(getattr(E, name)(intr) if intr else getattr(E, name)())])
        return outs

    def do_main(op, intr_k=None):
        "the same election through the package's own driver, Droop.main, reading the file from the simulated disk"
        opts = {} if op.get('call') else dict(op['options'])
        # the driver always reads the same path; the file is rewritten before each run, as a user re-running the
        # counter on an updated ballot file would do
        opts['path'] = '/simfs/ballots.blt'
        fs.put(opts['path'], texts[op['profile']].encode('utf-8'))
        want = set(op['render']) or {'report'}
        for name in ('report', 'dump', 'json'):
            opts[name] = name in want
        interrupted = False
        if intr_k is None:
            txt = R.Droop.main(opts)
        else:
            tr = Tracer(R, event='line', k=intr_k, budget=COUNT_BUDGET)
            try:
                tr.install()
                txt = R.Droop.main(opts)
            finally:
                tr.remove()
            interrupted = tr.fired is not None
        return [['main', shrink(txt)]], interrupted

    def do_count(op, intr_k=None):
        if op.get('via') == 'main' and R.Droop is not None:
            return do_main(op, intr_k)
        prof = profile_for(op)
        call = op.get('call')
        if call == 'none':
            E = Election(prof)              # options come from the file's [droop ...] line
        elif call == 'empty':
            E = Election(prof, {})
        elif call == 'object':
            # an embedding program that builds a fresh Options() per election and fills it with update()
            ob = R.droop.options.Options()
            for k_, v_ in op['options'].items():
                ob.update(k_, v_)
            E = Election(prof, ob)
        elif call == 'batch':
            # a batch script: ONE options dict object, same content, handed to every election of the session
            if not batch:
                batch.update(op['caller_options'])
            E = Election(prof, batch)
        else:
            E = Election(prof, dict(op['options']))
        interrupted = False
        if intr_k is None:
            # no step clock here: generated configurations never include rational Meek/Warren, and the
            # fork wall-clock limit backs this up (a kill is a harness error, never a verdict)
            E.count()
        else:
            tr = Tracer(R, event='line', k=intr_k, budget=COUNT_BUDGET)
            try:
                tr.install()
                E.count()
            except KeyboardInterrupt:
                interrupted = True
            finally:
                tr.remove()
        return render(E, op['render'], interrupted), interrupted
    fs = simfs.SimFS()
    with sunk_stdout(), simfs.mounted(R.droop.profile, fs), simfs.stat_patched(fs):
        signal.signal(signal.SIGALRM, _op_alarm)
        for op in ops:
            kind = op['op']
            # a predecessor that hangs (a tree whose parser or counter loops on some input) must not block the
            # session: it is logged and the history goes on
            signal.setitimer(signal.ITIMER_REAL, OP_WALL_PARSE if kind == 'parse-fails' else OP_WALL)
            try:
                if kind == 'count':
                    outs, _ = do_count(op)
                    log.append(['count', 'ok', hashlib.sha1("".join(t for _, t in outs).encode()).hexdigest()[:10]])
                elif kind == 'interrupted':
                    outs, was = do_count(op, op['k'])
                    log.append(['interrupted', 'intr' if was else 'completed',
                                hashlib.sha1("".join(t for _, t in outs).encode()).hexdigest()[:10]])
                elif kind == 'help':
                    if op.get('usage') and R.Droop is not None:
                        txt = R.Droop.usage(op.get('subject'))
                    else:
                        txt = repr(sorted(Election.makehelp().items()))
                    log.append(['help', 'ok', hashlib.sha1(txt.encode()).hexdigest()[:10]])
                elif kind == 'parse-fails':
                    try:
                        if op.get('raw_hex') is not None:
                            # a damaged file on the simulated disk (bytes that are not UTF-8, a half-written file),
                            # read through the path seam like every file the driver reads
                            fs.put(op['path'], bytes.fromhex(op['raw_hex']))
                            EP(path=op['path'])
                        else:
                            EP(data=op['text'])
                        log.append(['parse-fails', 'accepted'])
                    except R.droop.profile.ElectionProfileError:
                        log.append(['parse-fails', 'error'])
                elif kind == 'construct-fails':
                    prof = profile_for(op)
                    Election(prof, dict(op['options']))
                    log.append(['construct-fails', 'constructed'])
                elif kind == 'count-fails':
                    outs, _ = do_count(op)
                    log.append(['count-fails', 'counted'])
                else:
                    log.append([kind, 'unknown-op'])
            except BudgetExceeded:
                sys.settrace(None)
                log.append([kind, 'budget'])
            except OpTimeout:
                sys.settrace(None)
                log.append([kind, 'timeout'])
            except BaseException as e:      # pylint: disable=broad-except
                sys.settrace(None)
                log.append([kind, 'raises', type(e).__name__])
            finally:
                signal.setitimer(signal.ITIMER_REAL, 0)
        fp = None
        if want_fp:
            fp = fingerprint()
        # ---- the election under test
        res = dict(log=log, fp=fp)
        try:
            outs, _ = do_count(target)
            res['outcome'] = 'ok'
            res['outs'] = outs
        except BudgetExceeded:
            sys.settrace(None)
            res['outcome'] = 'budget'
        except BaseException as e:          # pylint: disable=broad-except
            sys.settrace(None)
            res['outcome'] = 'raises'
            res['exc'] = type(e).__name__
            res['msg'] = str(e)[:200]
    return res


def compare(alone, after):
    "None if the target's observable outcome is the same in both processes, else a violation dict"
    if alone['outcome'] == 'budget' or after['outcome'] == 'budget':
        return None
    if alone['outcome'] == 'timeout':
        return None         # the election under test does not finish even in a pristine process: not C20's subject
    if alone['outcome'] != after['outcome']:
        return dict(cls='history-dependence', what='outcome',
                    msg='alone: %s %s; after history: %s %s' % (alone['outcome'], alone.get('exc', ''),
                                                                after['outcome'], after.get('exc', '')),
                    line_text='%s/%s' % (alone.get('exc') or alone['outcome'], after.get('exc') or after['outcome']))
    if alone['outcome'] == 'raises':
        if alone.get('exc') != after.get('exc') or alone.get('msg') != after.get('msg'):
            return dict(cls='history-dependence', what='exception',
                        msg='alone: %s(%s); after history: %s(%s)' % (alone.get('exc'), alone.get('msg'),
                                                                        after.get('exc'), after.get('msg')),
                        line_text='%s/%s' % (alone.get('exc'), after.get('exc')))
        return None
    a, b = alone['outs'], after['outs']
    for (n1, t1), (n2, t2) in zip(a, b):
        if t1 != t2:
            l1, l2 = t1.split('\n'), t2.split('\n')
            i = 0
            while i < min(len(l1), len(l2)) and l1[i] == l2[i]:
                i += 1
            w = l1[i] if i < len(l1) else '<end>'
            g = l2[i] if i < len(l2) else '<end>'
            return dict(cls='history-dependence', what=n1, line=i + 1, want=w[:200], got=g[:200],
                        context=l1[max(0, i - 2):i], msg='%s differs at line %d' % (n1, i + 1),
                        line_text=re.sub(r'\d+', '#', w.strip())[:80])
    return None


def signature(v, target):
    "known-findings signature"
    o = target['options']
    return dict(clause=v['cls'], what=v.get('what'), rule=o.get('rule'), arithmetic=_value_class_name(o),
                line_text=v.get('line_text'))


# --------------------------------------------------------------------------
# generating sessions
# --------------------------------------------------------------------------

RENDER_ORDERS = [['report', 'dump', 'json'], ['json', 'dump', 'report'], ['dump', 'report', 'json'],
                 ['report', 'json', 'dump'], ['json', 'report', 'dump'], ['dump', 'json', 'report']]


def _render_choice(rnd):
    r = rnd.random()
    if r < 0.5:
        return list(rnd.choice(RENDER_ORDERS))
    if r < 0.7:
        return [rnd.choice(('report', 'dump', 'json'))]
    if r < 0.85:
        o = list(rnd.choice(RENDER_ORDERS))
        return o + [o[0]]                  # something rendered twice
    if r < 0.95:
        return list(rnd.choice(RENDER_ORDERS))[:2]
    return []


def same_class_options(rnd, topts):
    "options of a generic rule using the target's value class with (probably) different parameters"
    fam = _value_class_name(topts)
    rule = rnd.choice(('wigm', 'wigm', 'meek', 'warren'))
    o = {'rule': rule}
    if fam == 'Fixed':
        o['arithmetic'] = rnd.choice(('fixed', 'fixed', 'integer')) if rule == 'wigm' else 'fixed'
        if o['arithmetic'] == 'fixed':
            o['precision'] = rnd.choice((1, 2, 3, 4, 5, 6, 9, 12))
    elif fam == 'Guarded':
        o['arithmetic'] = 'guarded'
        o['precision'] = rnd.choice((1, 2, 3, 4, 6, 9, 12))
        if rnd.random() < 0.7:
            o['guard'] = rnd.choice((0, 1, 3, 6, 9))
    else:
        o['arithmetic'] = 'rational'
        o['rule'] = 'wigm'
    if rnd.random() < 0.7:
        o['display'] = rnd.choice((0, 1, 2, 3, 5, 6, 9, 12, 14, 30))
    if o['rule'] in ('meek', 'warren') and rnd.random() < 0.4:
        o['omega'] = rnd.randint(1, 6)
    return o


SIBLING = {'cfer': 'cfer-batch', 'cfer-batch': 'cfer', 'meek': 'warren', 'warren': 'meek',
           'wigm-prf': 'wigm-prf-batch', 'wigm-prf-batch': 'wigm-prf', 'wigm': 'wigm-prf', 'meek-prf': 'meek'}


def variant_election(rnd, e):
    "a copy of an abstract election with the same title and candidate count and exactly one aspect changed"
    import copy     # pylint: disable=import-outside-toplevel
    v = copy.deepcopy(e)
    n = v['n']
    eligible = [c for c in range(1, n + 1) if c not in v['withdrawn']]
    what = rnd.choice(('seats', 'tie', 'name', 'ballots', 'multipliers', 'nick'))
    if what == 'seats' and len(eligible) >= 2:
        choices = [s for s in range(1, len(eligible) + 1) if s != v['seats']]
        v['seats'] = rnd.choice(choices)
    elif what == 'tie':
        t = list(range(1, n + 1))
        rnd.shuffle(t)
        v['tie'] = t if t != v.get('tie') else list(reversed(t))
    elif what == 'name':
        i = rnd.randrange(n)
        v['names'][i] = v['names'][i] + ' Jr'
        j = rnd.randrange(n)
        v['names'][i], v['names'][j] = v['names'][j], v['names'][i]
    elif what == 'ballots':
        rnd.shuffle(v['ballots'])
        for b in v['ballots'][:2]:
            b[1] = list(reversed(b[1]))
    elif what == 'multipliers' and not v.get('ids'):
        for b in v['ballots']:
            b[0] = b[0] + rnd.randint(0, 3)
    else:
        v['nick'] = None if v.get('nick') else ["c%d" % i for i in range(1, n + 1)]
    return v


def scaled_twin_session(rnd, extended):
    """a predecessor and a target whose stored numbers coincide although their arithmetic parameters differ: the same
    election with every multiplier times 10^j, counted at a precision lower by j (3 votes at precision 9 and 30 votes at
    precision 8 are the same raw integer).  A cache keyed by raw value, or by parameters that a refused construction
    left half-updated, serves the predecessor's strings to the target only under such a coincidence (wave 10, ib-m1)."""
    import copy     # pylint: disable=import-outside-toplevel
    e = gen.gen_election(rnd, rule='wigm', small=True,
                         flags=dict(ids=False, huge_mult=False, big_mult=False, equal=False, undeclared=False))
    j = rnd.choice((1, 1, 2, 3))
    e10 = copy.deepcopy(e)
    for b in e10['ballots']:
        b[0] *= 10 ** j
    fam = rnd.choice(('fixed', 'guarded', 'guarded'))
    rule = rnd.choice(('wigm', 'wigm', 'wigm', 'meek', 'warren'))
    p_hi = rnd.randint(j + 1, 10)
    p_lo = p_hi - j
    hi = {'rule': rule, 'arithmetic': fam, 'precision': p_hi}
    lo = {'rule': rule, 'arithmetic': fam, 'precision': p_lo}
    if fam == 'guarded':
        g = rnd.choice((0, 1, 3, 6))
        hi['guard'] = g
        lo['guard'] = g if rnd.random() < 0.8 else g + j      # same guard, or the same total number of digits
    if rnd.random() < 0.7:
        d = rnd.choice((0, 1, 2, 3, 5, 8, 9, 12))
        hi['display'] = d
        lo['display'] = d if rnd.random() < 0.8 else rnd.choice((0, 2, 4, 9))
    texts = [gen.render_blt(e, rnd), gen.render_blt(e10, rnd)]
    if rnd.random() < 0.5:
        pred, target = (0, hi), (1, lo)
    else:
        pred, target = (1, lo), (0, hi)
    ops = []
    tags = {'scaled_twin'}
    if rnd.random() < 0.3:
        ops.append(dict(op='count', profile=rnd.randrange(2), share=False,
                        options=same_class_options(rnd, target[1]), render=_render_choice(rnd)))
    ops.append(dict(op='count', profile=pred[0], share=False, options=dict(pred[1]),
                    render=_render_choice(rnd) or ['report']))
    if extended:
        # a construction refused half-way through initialising the class with the target's precision
        bad = dict(target[1])
        bad.pop('display', None)
        key = rnd.choice(('guard', 'display')) if fam == 'guarded' else 'display'
        bad[key] = rnd.choice(('x', '-1', '1.5', 'all'))
        if key == 'display' and fam == 'guarded' and rnd.random() < 0.5:
            bad['guard'] = rnd.choice((0, 1, 3, 6))
        ops.append(dict(op='construct-fails', profile=target[0], share=False, options=bad))
        tags.add('extended_ops')
    tgt = dict(op='count', profile=target[0], share=False, options=dict(target[1]),
               render=list(rnd.choice(RENDER_ORDERS)))
    return dict(texts=texts, ops=ops, target=tgt, tags=sorted(tags))


def gen_session(seed, idx, extended=False):
    "deterministic session idx: dict(texts, ops, target, tags)"
    rnd = rng(seed, 'hist-x' if extended else 'hist', idx)
    if idx % 25 == 7 or (extended and idx % 5 == 2):
        return scaled_twin_session(rnd, extended)
    ntexts = rnd.choice((1, 1, 2, 2, 3))
    texts = []
    elections = []
    for ti in range(ntexts):
        if ti > 0 and rnd.random() < 0.4:
            # a near-twin of an earlier profile: same title and candidate count, one thing changed -- the shape a
            # cache keyed too coarsely (by title, by candidate id, by number of candidates) confuses
            e = variant_election(rnd, elections[rnd.randrange(ti)])
        else:
            rule = rnd.choice(gen.RULES)
            e = gen.gen_election(rnd, rule=rule, small=(rnd.random() < 0.7))
        elections.append(e)
        texts.append(gen.render_blt(e, rnd))
    trule = rnd.choice(gen.RULES)
    tprof = rnd.randrange(ntexts)
    topts = gen.gen_options(rnd, rule=trule, n=elections[tprof]['n'], slow_ok=False)
    if idx % 97 == 13 and trule in gen.GENERIC:
        # an exotic but legal target: numbers of more than a thousand digits (interpreter-wide limits on int<->str
        # conversion matter only here)
        topts = {'rule': trule, 'arithmetic': rnd.choice(('fixed', 'guarded')), 'precision': rnd.choice((1100, 2200))}
        if topts['arithmetic'] == 'guarded':
            topts['guard'] = rnd.choice((0, 1100))
    target = dict(op='count', profile=tprof, share=rnd.random() < 0.5, options=topts,
                  render=list(rnd.choice(RENDER_ORDERS)))
    if rnd.random() < 0.12:
        target['via'] = 'main'
        target['share'] = False
    rlen = rnd.random()
    if rlen < 0.94:
        n = rnd.choice((1, 1, 2, 2, 3, 3, 4, 5, 6))
    elif rlen < 0.99:
        n = rnd.randint(7, 12)          # a few long histories
    else:
        n = rnd.randint(20, 40)         # and very long ones: caches that misbehave only when they fill up or evict
    ops = []
    tags = set()
    for j in range(n):
        r = rnd.random()
        pidx = tprof if rnd.random() < 0.5 else rnd.randrange(ntexts)
        share = rnd.random() < 0.5
        if share and pidx == tprof and target['share']:
            tags.add('profile_object_reused')
        if r < 0.07:
            ops.append(dict(op='help', usage=rnd.random() < 0.5,
                            subject=rnd.choice((None, 'meek', 'guarded', 'rational', 'wigm', 'nosuch'))))
            tags.add('help_called')
            continue
        if r < 0.12:
            t = texts[rnd.randrange(ntexts)]
            cut = rnd.randint(0, max(1, len(t) - 1))
            if rnd.random() < 0.4:
                # the damaged file lies on disk in another encoding (or cut inside a character) and is read by path
                how = rnd.choice(('latin-1', 'cp1252', 'utf-16', 'cut', 'ff'))
                if how == 'cut':
                    raw = (t[:cut] + 'é').encode('utf-8')[:-1]
                elif how == 'ff':
                    raw = t[:cut].encode('utf-8') + b'\xff' + t[cut:].encode('utf-8')
                else:
                    raw = ('"Zoë Müller" ' + t).encode(how, 'replace')
                ops.append({'op': 'parse-fails', 'raw_hex': raw.hex(),
                            'path': rnd.choice(('/simfs/ballots.blt', '/simfs/other.blt'))})
                tags.add('parse_fails_undecodable_file_by_path')
            else:
                ops.append({'op': 'parse-fails', 'text': t[:cut]})
            tags.add('parse_fails')
            continue
        if extended and r < 0.45:
            bad = rnd.choice([
                {'rule': rnd.choice(('wigm', 'meek')), 'arithmetic': 'fixed', 'precision': -1},
                {'rule': 'wigm', 'arithmetic': 'bogus'},
                {'rule': 'wigm', 'arithmetic': 'guarded', 'precision': 4, 'guard': 'x'},
                {'rule': 'wigm', 'arithmetic': 'guarded', 'precision': 5, 'display': 'y'},
                {'rule': 'wigm', 'arithmetic': 'fixed', 'precision': 3, 'display': 'z'},
                {'rule': 'wigm', 'defeat_batch': 'bad'},
                {'rule': 'meek', 'defeat_batch': 'zero'},
                {'rule': 'nosuchrule'},
                {'rule': 'wigm', 'arithmetic': 'guarded', 'precision': 'abc'},
                {'rule': 'wigm', 'integer_quota': 'maybe'},
            ])
            if rnd.random() < 0.5:
                # a refused construction that got half-way through initialising the TARGET's value class with the
                # target's own precision (and guard) before a bad display/guard value stopped it
                bad = same_class_options(rnd, topts)
                for key in ('precision', 'guard'):
                    if key in topts:
                        bad[key] = topts[key]
                bad[rnd.choice(('display', 'guard') if bad.get('arithmetic') == 'guarded' else ('display',))] = \
                    rnd.choice(('all', 'x', '-1', '1.5'))
            if rnd.random() < 0.25:
                ops.append(dict(op='count-fails', profile=pidx, share=share,
                                options={'rule': rnd.choice(('meek', 'warren')), 'arithmetic': 'integer'},
                                render=['report']))
            else:
                ops.append(dict(op='construct-fails', profile=pidx, share=share, options=bad))
            tags.add('extended_ops')
            continue
        # an election, counted and reported
        q = rnd.random()
        if q < 0.125:
            o = dict(topts)
            tags.add('identical_recount')
        elif q < 0.50:
            o = same_class_options(rnd, topts)
            tags.add('same_class_reinit')
            if rnd.random() < 0.1:
                # the predecessor's value EQUALS the target's but is of another type (False == 0, True == 1, 2.0 == 2,
                # as 'display=no' on a command line or a float from a configuration file produce): a memo keyed by
                # the option value conflates them
                key = rnd.choice(('display', 'display', 'precision', 'guard', 'omega'))
                tv = topts.get(key, rnd.choice((0, 1)) if key == 'display' else None)
                if isinstance(tv, int) and not isinstance(tv, bool):
                    o[key] = bool(tv) if tv in (0, 1) else float(tv)
                    tags.add('predecessor_option_value_of_another_type')
        elif q < 0.58 and topts['rule'] in SIBLING:
            # the sibling rule shares the target rule's class (cfer/cfer-batch, meek/warren, wigm-prf/-batch)
            o = gen.gen_options(rnd, rule=SIBLING[topts['rule']], n=elections[pidx]['n'])
            tags.add('sibling_rule')
        elif q < 0.78:
            o = gen.gen_options(rnd, rule=topts['rule'], n=elections[pidx]['n'])
            tags.add('same_rule')
        else:
            o = gen.gen_options(rnd, n=elections[pidx]['n'])
            tags.add('any')
        if _value_class_name(o) != _value_class_name(topts):
            tags.add('cross_class')
        rend = _render_choice(rnd)
        if len(rend) != len(set(rend)):
            tags.add('predecessor_rendered_twice')
        if rnd.random() < 0.15:
            ops.append(dict(op='interrupted', profile=pidx, share=share, options=o, k=rnd.choice(
                (1, 5, 40, 120, 200, 260, 400, 700, 1000, 1500, 2500)), render=rend or ['report']))
            tags.add('predecessor_interrupted')
        else:
            ops.append(dict(op='count', profile=pidx, share=share, options=o, render=rend))
        if rnd.random() < 0.15:
            ops[-1]['via'] = 'main'
            tags.add('predecessor_via_Droop_main')
    if target.get('via') == 'main':
        tags.add('target_via_Droop_main')
    if not extended and rnd.random() < 0.05:
        # batch session: the caller's ONE options dict (rule, display, ...) is passed to every election; what differs
        # between the elections (precision, guard, omega) comes from each file's [droop ...] line
        caller = {k: v for k, v in topts.items() if k in ('rule', 'display', 'arithmetic', 'defeat_batch')}
        tags = set(tags) | {'batch_shared_options_dict'}
        new_ops = []
        for op in ops + [target]:
            if op.get('op') not in ('count', 'interrupted'):
                if op is not target:
                    new_ops.append(op)
                continue
            own = {}
            if _value_class_name(caller) != 'Rational':
                own['precision'] = rnd.choice((1, 2, 3, 4, 6, 9, 12))
                if _value_class_name(caller) == 'Guarded' and rnd.random() < 0.6:
                    own['guard'] = rnd.choice((0, 1, 3, 6, 9))
            e2 = dict(elections[op['profile']] if op['profile'] < len(elections) else elections[0])
            e2['droop'] = gen.droop_tokens(own, rnd) or None
            texts.append(gen.render_blt(e2, rnd))
            op.update(profile=len(texts) - 1, share=False, call='batch', caller_options=dict(caller),
                      options=dict(caller, **own))
            op.pop('via', None)
            if op is not target:
                new_ops.append(op)
        ops = new_ops
        return dict(texts=texts, ops=ops, target=target, tags=sorted(tags))
    if extended and rnd.random() < 0.08 and target.get('via') != 'main':
        # a name the package does not know (another spelling of the target's rule or arithmetic) is first asked for --
        # and refused -- and then stands as a bare word in the [droop ...] line of the target's file: whatever the
        # refusal left behind in the package's name tables decides how that word is read
        base_name = rnd.choice([topts['rule']] + ([topts['arithmetic']] if isinstance(topts.get('arithmetic'), str) else []))
        w = rnd.choice((base_name.capitalize(), base_name.upper(), base_name.replace('-', '_'), base_name + 's'))
        if w != base_name:
            key = 'rule' if base_name == topts['rule'] else 'arithmetic'
            bad = dict(topts)
            bad[key] = w
            ops.insert(rnd.randint(0, len(ops)), dict(op='construct-fails', profile=tprof, share=False, options=bad))
            e2 = dict(elections[tprof])
            rest_ = {k: v for k, v in topts.items() if k != key}
            e2['droop'] = [w] + gen.droop_tokens(rest_, rnd)
            texts.append(gen.render_blt(e2, rnd))
            target.update(profile=len(texts) - 1, share=False, call='none')
            tags.add('refused_name_then_bare_word_in_file')
            return dict(texts=texts, ops=ops, target=target, tags=sorted(tags))
    # some elections carry their options in the ballot file ([droop ...]) and are built as Election(profile) or
    # Election(profile, {}) -- the call shape of a program that leaves configuration to the file
    for op in ops + [target]:
        if op.get('op') in ('count', 'interrupted') and rnd.random() < 0.12:
            e2 = dict(elections[op['profile']] if op['profile'] < len(elections) else elections[0])
            e2['droop'] = gen.droop_tokens(op['options'], rnd)
            texts.append(gen.render_blt(e2, rnd))
            op['profile'] = len(texts) - 1
            op['share'] = False
            op['call'] = rnd.choice(('none', 'empty'))
            tags.add('target_options_embedded_in_file' if op is target else 'predecessor_options_embedded_in_file')
        elif op.get('op') in ('count', 'interrupted') and op.get('via') != 'main' and rnd.random() < 0.08:
            op['call'] = 'object'
            tags.add('options_object_call')
    # the same profile OBJECT, carrying its options in the file, counted again: whatever the first Election did to
    # the profile's own option list (or anything else it owns) shows in the recount
    if target.get('call') in ('none', 'empty') and target.get('via') != 'main' and rnd.random() < 0.5:
        preds = [op for op in ops if op.get('op') == 'count' and op.get('via') != 'main']
        if preds:
            op = rnd.choice(preds)
            op.update(profile=target['profile'], share=True, call=target['call'], options=dict(target['options']))
            target['share'] = True
            tags.add('embedded_options_profile_object_recounted')
    return dict(texts=texts, ops=ops, target=target, tags=sorted(tags))


# --------------------------------------------------------------------------
# configuration grid: every history of length 1
# --------------------------------------------------------------------------

def grid(tier):
    "list of option dicts: rule x arithmetic x precision x guard x display, pruned to accepted combinations"
    G = []
    for rule in gen.STATUTORY:
        G.append({'rule': rule})
    if tier == 'quick':
        precs, guards, disps = (0, 2, 9), (0, 3), (None, 0, 3, 14)
    else:
        precs, guards, disps = (0, 2, 4, 9), (0, 3, None), (None, 0, 3, 9, 14)
    for rule in ('wigm', 'meek', 'warren'):
        for p in precs:
            if p == 0:
                if rule == 'wigm':
                    G.append({'rule': rule, 'arithmetic': 'integer'})
                continue
            for d in disps:
                o = {'rule': rule, 'arithmetic': 'fixed', 'precision': p}
                if d is not None:
                    o['display'] = d
                if tier == 'quick' and rule == 'warren' and d not in (None, 3):
                    continue
                G.append(o)
            for g in guards:
                for d in disps:
                    if tier == 'quick' and (rule == 'warren' or (d not in (None, 14) and g != 0)):
                        continue
                    o = {'rule': rule, 'arithmetic': 'guarded', 'precision': p}
                    if g is not None:
                        o['guard'] = g
                    if d is not None:
                        o['display'] = d
                    G.append(o)
        if rule == 'wigm':
            for d in disps:
                o = {'rule': 'wigm', 'arithmetic': 'rational'}
                if d is not None:
                    o['display'] = d
                G.append(o)
            G.append({'rule': 'wigm', 'integer_quota': True, 'defeat_batch': 'zero'})
        else:
            G.append({'rule': rule, 'omega': 3, 'defeat_batch': 'none'})
    return G


GRID_TEXTS = [
    "4 2\n4 1 2 3 0\n3 2 1 0\n2 3 4 0\n2 4 3 1 0\n1 2 0\n0\n\"Adams\"\n\"Baker\"\n\"Chu\"\n\"Diaz\"\n\"grid one\"\n",
    "5 2\n-2\n[tie 5 4 3 2 1]\n3 1 3 0\n3 3 1 0\n2 4 5 0\n2 5 4 0\n1 1 2 4 0\n1 3 0\n0\n\"A\"\n\"B\"\n\"C\"\n\"D\"\n\"E\"\n"
    "\"grid two\"\n\"src\"\n",
]


# --------------------------------------------------------------------------
# work units
# --------------------------------------------------------------------------

def _target_key(texts, target):
    return hashlib.sha1(repr((texts[target['profile']], sorted(target['options'].items()), target['share'],
                              target['render'], target.get('via'), target.get('call'),
                              sorted((target.get('caller_options') or {}).items()))).encode()).hexdigest()


SESSION_WALL = 150.0       # seconds for the target alone (sessions take milliseconds, wide ones seconds)


def _timed(fn, args, timeout, what):
    "fork_call, but a child that runs into the wall-clock limit is an outcome ('timeout'), not a harness error"
    try:
        return fork_call(fn, args, timeout=timeout, what=what)
    except ChildFailed as e:
        if 'wall-clock limit' in str(e):
            return dict(outcome='timeout', log=[['session', 'timeout']], fp=None)
        raise


def run_session(R, sess, alone_cache=None, want_fp=True):
    "both sides of one session; returns (violation or None, info)"
    texts, ops, target = sess['texts'], sess['ops'], sess['target']
    key = _target_key(texts, target)
    alone = alone_cache.get(key) if alone_cache is not None else None
    if alone is None:
        alone = _timed(exec_session, (R, texts, [], target, want_fp), SESSION_WALL, 'C20 target alone')
        if alone_cache is not None:
            alone_cache[key] = alone
    after = _timed(exec_session, (R, texts, ops, target, want_fp), 2 * SESSION_WALL, 'C20 history')
    v = compare(alone, after)
    info = dict(outcome=alone['outcome'], log=after['log'])
    if want_fp and alone.get('fp') is not None and after.get('fp') is not None:
        fam = _value_class_name(target['options'])
        fa, fb = alone['fp'], after['fp']
        diff = [k for k in fb if fa.get(k) != fb[k]] + [k for k in fa if k not in fb]
        info['fp'] = fp_digest(fb)
        info['fp_differs'] = bool(diff)
        info['stale_in_target_class'] = any(('.%s.' % fam) in k for k in diff)
        info['fp_diff_n'] = len(diff)
    h = hashlib.sha1()
    if alone['outcome'] == 'ok':
        for nme, t in alone['outs']:
            h.update(nme.encode())
            h.update(t.encode('utf-8', 'replace'))
    info['target_digest'] = h.hexdigest()[:10]
    return v, info


_FRESH = """
import json, sys
sys.dont_write_bytecode = True
job = json.load(sys.stdin)
sys.path.insert(0, job['verif'])
from dsim import core, c20
R = core.bind_repo(job['repo'])
res = c20.exec_session(R, job['texts'], [], job['target'], False)
res.pop('fp', None)
json.dump(res, sys.stdout)
"""


def fresh_exec(R, texts, target):
    "the target alone in a really fresh interpreter under another hash seed (stub fidelity of fork-from-zygote)"
    import json         # pylint: disable=import-outside-toplevel
    import os           # pylint: disable=import-outside-toplevel
    import subprocess   # pylint: disable=import-outside-toplevel
    env = dict(os.environ)
    env['PYTHONHASHSEED'] = 'random'
    p = subprocess.run([sys.executable, '-c', _FRESH], input=json.dumps(dict(
        verif=VERIF_DIR, repo=R.path, texts=texts, target=target)), env=env, capture_output=True, text=True,
        timeout=600, check=False)
    if p.returncode != 0:
        return None
    return json.loads(p.stdout)


def new_acc():
    "empty accumulator"
    return dict(sessions=0, keys=set(), fps=set(), probes={}, viol=[], notes=[], samples=[], outcomes={},
                pred_ops={}, digest=[], stub_disagreements=[])


def _account(acc, sess, v, info, idx, extended):
    acc['sessions'] += 1
    acc['outcomes'][info['outcome']] = acc['outcomes'].get(info['outcome'], 0) + 1
    pr = acc['probes']
    for t in sess.get('tags', ()):
        pr[t] = pr.get(t, 0) + 1
    for ent in info['log']:
        k = "%s:%s" % (ent[0], ent[1])
        acc['pred_ops'][k] = acc['pred_ops'].get(k, 0) + 1
    if info.get('fp'):
        acc['fps'].add(info['fp'])
        if info.get('stale_in_target_class'):
            o = sess['target']['options']
            acc['keys'].add("%s|%s" % (info['fp'], sorted(o.items())))
            pr['stale_state_in_target_class'] = pr.get('stale_state_in_target_class', 0) + 1
        elif info.get('fp_differs'):
            pr['stale_state_elsewhere_only'] = pr.get('stale_state_elsewhere_only', 0) + 1
    acc['digest'].append((idx, info['outcome'], info['target_digest'], [tuple(x) for x in info['log']]))
    if v is not None:
        v = dict(v, idx=idx, extended=extended, session=sess)
        if extended:
            acc['notes'].append(v)
        else:
            acc['viol'].append(v)


def work_sessions(R, seed, first, count, extended=False, fresh=0.0):
    "random-history arm"
    acc = new_acc()
    for i in range(first, first + count):
        sess = gen_session(seed, i, extended)
        cache = {}
        v, info = run_session(R, sess, cache)
        if fresh > 0 and rng(seed, 'hist-fresh', i).random() < fresh:
            alone = list(cache.values())[0]
            fr = fresh_exec(R, sess['texts'], sess['target'])
            pr = acc['probes']
            if fr is None:
                pr['fresh_interpreter_failed'] = pr.get('fresh_interpreter_failed', 0) + 1
            elif fr.get('outcome') == alone.get('outcome') and fr.get('outs') == alone.get('outs') \
                    and fr.get('exc') == alone.get('exc'):
                pr['fresh_interpreter_agrees'] = pr.get('fresh_interpreter_agrees', 0) + 1
            else:
                pr['fresh_interpreter_DISAGREES'] = pr.get('fresh_interpreter_DISAGREES', 0) + 1
                acc['stub_disagreements'].append(dict(run=i, target=sess['target']))
        _account(acc, sess, v, info, ('x%d' if extended else 's%d') % i, extended)
        if i == first:
            acc['samples'].append(dict(run=i, history=sess['ops'], target=sess['target'],
                                       profiles=sess['texts'], tags=sess['tags'], target_outcome=info['outcome']))
    return acc


def work_grid(R, tier, ti):
    "pair-grid arm: every predecessor of the grid before target ti, on both fixed profiles"
    G = grid(tier)
    acc = new_acc()
    topts = G[ti]
    for pi, text in enumerate(GRID_TEXTS):
        cache = {}
        target = dict(op='count', profile=0, share=False, options=topts, render=['report', 'dump', 'json'])
        for qi, popts in enumerate(G):
            sess = dict(texts=[text], ops=[dict(op='count', profile=0, share=False, options=popts,
                                               render=['report'] if qi % 2 else ['json', 'dump'])],
                        target=target, tags=['grid_pair'])
            v, info = run_session(R, sess, cache)
            _account(acc, sess, v, info, 'g%d.%d.%d' % (pi, qi, ti), False)
    return acc


def wide_text(n, variant=0):
    "a valid election with n (>= 256) candidates of which a handful have votes; high ids are ranked"
    hi = [n, n - 1, n - 2]
    lines = ["%d 2" % n]
    if variant:
        lines.append("-%d" % (n - 3))
    lines += ["5 %d 1 0" % hi[0], "4 1 %d 0" % hi[1], "3 %d %d 2 0" % (hi[1], hi[0]), "3 2 1 0", "2 %d 0" % hi[2],
              "%d 3 %d 0" % (n, hi[0]), "0"]
    lines += ['"c%d"' % i for i in range(1, n + 1)]
    lines.append('"wide %d"' % n)
    return "\n".join(lines) + "\n"


WIDE_CONFIGS = [{'rule': 'mpls'}, {'rule': 'wigm-prf-batch'},
                {'rule': 'wigm', 'arithmetic': 'integer', 'defeat_batch': 'zero'}]


def wide_sessions():
    "sessions in which the SIZE of an earlier election differs grossly from the target's (content-dependent state)"
    small = GRID_TEXTS[0]
    out = []
    for ci, cfg in enumerate(WIDE_CONFIGS):
        other = WIDE_CONFIGS[(ci + 1) % len(WIDE_CONFIGS)]
        rend = ['report', 'dump', 'json']
        # small predecessor, wide target
        out.append(dict(texts=[small, wide_text(270)], tags=['wide_target_after_small'],
                        ops=[dict(op='count', profile=0, share=False, options=other, render=['report'])],
                        target=dict(op='count', profile=1, share=False, options=cfg, render=rend)))
        # wide predecessor, small target
        out.append(dict(texts=[small, wide_text(300, 1)], tags=['small_target_after_wide'],
                        ops=[dict(op='count', profile=1, share=False, options=cfg, render=['dump'])],
                        target=dict(op='count', profile=0, share=False, options=other, render=rend)))
        # wide predecessor, differently wide target, through the driver
        out.append(dict(texts=[wide_text(300), wide_text(256, 1)], tags=['wide_target_after_wide'],
                        ops=[dict(op='count', profile=0, share=False, options=cfg, render=['report'], via='main')],
                        target=dict(op='count', profile=1, share=False, options=cfg, render=rend, via='main')))
    return out


def manyfile_sessions():
    """dozens of DISTINCT ballot files go through Droop.main before one of them is counted again: caches in the
    driver layer that only misbehave once they are full or start to evict"""
    rnd = rng(0, 'hist-manyfiles', 0)
    texts = []
    for i in range(56):
        e = gen.gen_election(rnd, rule='wigm', small=True)
        e['title'] = 'file %d' % i
        texts.append(gen.render_blt(e, plain=True))
    out = []
    for (tidx, cfg) in ((0, {'rule': 'wigm'}), (20, {'rule': 'meek-prf'}), (40, {'rule': 'scotland'})):
        ops = [dict(op='count', profile=i, share=False, options={'rule': ('wigm', 'cfer', 'mpls')[i % 3]},
                    render=['report'], via='main') for i in range(56)]
        out.append(dict(texts=texts, ops=ops, tags=['many_distinct_files_through_driver'],
                        target=dict(op='count', profile=tidx, share=False, options=cfg,
                                    render=['report', 'dump', 'json'], via='main')))
    return out


def special_sessions():
    "the fixed sessions of the wide and many-files arms"
    return wide_sessions() + manyfile_sessions()


def work_wide(R, j):
    "wide / many-files arms: fixed session j of special_sessions()"
    acc = new_acc()
    sess = special_sessions()[j]
    v, info = run_session(R, sess)
    _account(acc, sess, v, info, 'w%d' % j, False)
    return acc


# --------------------------------------------------------------------------
# replay and minimisation
# --------------------------------------------------------------------------

def replay_object(R, seed, v):
    "replay file content"
    sess = v['session']
    return dict(property='C20', verif_seed=seed, run=v['idx'], engine='hist', profiles=sess['texts'],
                history=sess['ops'], target=sess['target'], extended=v.get('extended', False),
                violation={k: v.get(k) for k in ('cls', 'what', 'line', 'want', 'got', 'msg', 'line_text',
                                                 'context')}, tree=R.tree)


def run_replay(R, obj):
    "both sides of a recorded session; the violation or None"
    sess = dict(texts=obj['profiles'], ops=obj['history'], target=obj['target'])
    v, info = run_session(R, sess, None, want_fp=False)
    return v, info['outcome']


def minimise(R, seed, v):
    "ddmin over the history, then drop option keys of the surviving predecessors"
    sess = v['session']
    texts, target = sess['texts'], sess['target']
    cache = {}
    want = (v['cls'], v.get('what'))

    def shows(ops, tgt=None):
        s = dict(texts=texts, ops=ops, target=tgt or target)
        v2, _ = run_session(R, s, cache, want_fp=False)
        return v2 is not None and (v2['cls'], v2.get('what')) == want
    ops = list(sess['ops'])
    if len(ops) > 1:
        ops = ddmin(ops, shows, max_tests=40)
    for i, op in enumerate(list(ops)):
        if 'options' not in op:
            continue
        for key in sorted(op['options']):
            if key == 'rule':
                continue
            o2 = {k: x for k, x in op['options'].items() if k != key}
            trial = ops[:i] + [dict(op, options=o2)] + ops[i + 1:]
            if shows(trial):
                ops = trial
                op = trial[i]
        if op.get('render') and len(op['render']) > 1:
            for r in list(op['render']):
                trial = ops[:i] + [dict(op, render=[x for x in op['render'] if x != r] or [r])] + ops[i + 1:]
                if shows(trial):
                    ops = trial
                    op = trial[i]
    s = dict(texts=texts, ops=ops, target=target)
    v2, _ = run_session(R, s, cache, want_fp=False)
    if v2 is None:
        v2, ops = v, sess['ops']
    out = dict(v2, idx=v['idx'], extended=v.get('extended', False), session=dict(texts=texts, ops=ops, target=target))
    return replay_object(R, seed, out)
