"""Canonical forms of actions, records and renderings (DESIGN 4.7).

canon(action) is a JSON string with sorted keys in which every arithmetic value
is replaced by its exact content, so two actions are equal iff they are the same
computation result, whatever the display settings.
"""

import json
from fractions import Fraction


def _plain(x, depth=0):
    "recursively replace package objects by exact JSON-able content"
    if x is None or isinstance(x, (bool, int, str)):
        return x
    if isinstance(x, float):
        return ["f", repr(x)]
    if isinstance(x, Fraction):
        return ["R", x.numerator, x.denominator]
    if isinstance(x, dict):
        if depth > 12:
            return "<deep>"
        return {("i:%d" % k if isinstance(k, int) and not isinstance(k, bool) else "s:%s" % (k,)): _plain(v, depth + 1)
                for k, v in x.items()}
    if isinstance(x, (list, tuple)):
        if depth > 12:
            return "<deep>"
        return [_plain(v, depth + 1) for v in x]
    if isinstance(x, (set, frozenset)):
        return ["set"] + sorted((_plain(v, depth + 1) for v in x), key=lambda v: json.dumps(v, sort_keys=True))
    tn = type(x).__name__
    if hasattr(x, '_value') and tn in ('Fixed', 'Guarded'):
        v = x._value                    # pylint: disable=protected-access
        # a damaged value may hold anything (a tree under test once stored a Fixed inside a Fixed)
        return [tn[0], v if isinstance(v, int) and not isinstance(v, bool) else _plain(v, depth + 1)]
    if hasattr(x, 'cid') and hasattr(x, 'state'):
        return ["C", x.cid]
    return ["?", tn, repr(x)[:200]]


def canon(action):
    "canonical JSON string of one action"
    return json.dumps(_plain(action), sort_keys=True, ensure_ascii=True, default=repr)


def canon_actions(record):
    "list of canonical strings of a record's actions (a missing list is an empty one)"
    try:
        acts = record.get('actions')
    except Exception:       # pylint: disable=broad-except
        acts = None
    if not isinstance(acts, list):
        return []
    out = []
    for a in acts:
        try:
            out.append(canon(a))
        except Exception as e:      # pylint: disable=broad-except
            # whatever a tree under test put into its record, the harness must not crash on it: an action that
            # cannot be canonicalised compares equal to nothing the reference has
            out.append(json.dumps(["uncanonical", type(e).__name__, repr(a)[:300]]))
    return out


def is_marker_action(a):
    "is this action the logged interrupt marker?"
    try:
        return a.get('tag') == 'log' and 'interrupt' in str(a.get('msg', '')).lower()
    except Exception:       # pylint: disable=broad-except
        return False


def is_marker_canon(s):
    "the same on a canonical string"
    try:
        a = json.loads(s)
    except ValueError:
        return False
    return isinstance(a, dict) and a.get('s:tag') == 'log' and 'interrupt' in str(a.get('s:msg', '')).lower()


def is_prefix(short, long_):
    "index of first mismatch, or -1 if short is a prefix of long_"
    if len(short) > len(long_):
        for i, (a, b) in enumerate(zip(short, long_)):
            if a != b:
                return i
        return len(long_)
    for i, a in enumerate(short):
        if a != long_[i]:
            return i
    return -1
