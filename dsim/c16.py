"""C16 engine: any stored ballot file is read as a valid profile or as a clean profile error.

A valid file is written to the simulated disk, storage/IO faults happen to it,
droop reads it through its real open/read/decode path (DESIGN section 6).
"""

import base64
import re
import signal
import sys

from . import gen, simfs
from .core import BudgetExceeded, rng, sunk_stdout
from .minimise import ddmin
from .intr import exc_info_in_tree

SIM_PATH = '/simfs/ballots.blt'
WALL_LIMIT = 6         # seconds per evaluation (reads take milliseconds) before the step budget is consulted


BIG_FILE = 100_000         # from this size on a read is judged by CPU time instead of the short wall-clock limit
CPU_LIMIT = 10.0           # CPU seconds allowed for reading one big file (the unchanged tree needs ~0.1-0.3 s)


class Hang(BaseException):
    "wall-clock alarm inside one evaluation"


def _alarm(signum, frame):      # pylint: disable=unused-argument
    raise Hang()


# --------------------------------------------------------------------------
# step budget for the parser (the 'never hangs' half)
# --------------------------------------------------------------------------

def parser_budget(nbytes):
    "line events allowed for reading a file of nbytes (the parser is linear: ~15 lines per token)"
    return 200 * nbytes + 100_000


class ParseClock:
    "counts line events in package frames; raises BudgetExceeded beyond the budget"

    def __init__(self, R, budget):
        self.n = 0
        pkgdir = R.pkgdir
        st = self

        def local(frame, event, arg):       # pylint: disable=unused-argument
            if event == 'line':
                st.n += 1
                if st.n > budget:
                    raise BudgetExceeded(st.n)
            return local

        def glob(frame, event, arg):        # pylint: disable=unused-argument
            if frame.f_code.co_filename.startswith(pkgdir):
                return local
            return None
        self._glob = glob

    def __enter__(self):
        sys.settrace(self._glob)
        return self

    def __exit__(self, *exc):
        sys.settrace(None)
        return False


# --------------------------------------------------------------------------
# base files
# --------------------------------------------------------------------------

def wide_election(rnd, n):
    "a valid election with n candidates in which the highest ids are ranked (array typecode boundaries)"
    ballots = []
    for _ in range(3):
        p = [n, n - 1, 1, 2]
        rnd.shuffle(p)
        ballots.append([n, [[c] for c in p[:rnd.randint(1, 4)]]])
    return dict(n=n, seats=rnd.randint(1, 3), withdrawn=[], undeclared=[], tie=None, nick=None, ballots=ballots,
                ids=False, names=["c%d" % i for i in range(1, n + 1)], title='wide', source=None, comment=None,
                droop=None)


#: small valid files at the numeric edges of the format (all accepted by the package)
EDGE_BASES = [
    '1 1\n1 1 0\n0\n"Solo"\n"one candidate"\n',
    '2 2\n1 1 2 0\n1 2 0\n0\n"A"\n"B"\n"seats equal candidates"\n',
    '3 1\n-3\n1 1 0\n1 2 0\n0\n"A"\n"B"\n"C"\n"ballots equal eligible"\n',
    '03 01\n01 1 2 0\n2 02 3 0\n1 3 0\n0\n"A"\n"B"\n"C"\n"leading zeros"\n',
    '3 1\n2 0\n1 1 2 0\n2 2 0\n1 0\n1 3 0\n0\n"A"\n"B"\n"C"\n"empty rankings are ignored"\n',
    '4 1\n[withdrawn 1 2 3]\n3 4 1 0\n0\n"A"\n"B"\n"C"\n"D"\n"all but one withdrawn"\n',
    '3 2\n[tie 3 3 2 1]\n2 1 2 0\n2 2 3 0\n1 3 0\n0\n"A"\n"B"\n"C"\n"tie list with a repeat"\n',
    '3 1\n1000000 1 0\n999999 2 0\n1 3 2 0\n0\n"A"\n"B"\n"C"\n"big multipliers"\n"src"\n"cmt"\n',
    '2 1\n(a) 1 0\n(b b) 2 1 0\n0\n"A"\n"B"\n"ids"\n',
    '3 1 [nick x y z] [tie z y x] -2 1 x 0 1 z x 0 0 "A" "B" "C" "one line"',
]


#: failing inputs of past findings (reduced forms from the replay files) and close relatives.  They are not valid
#: files; they go through the oracle unfaulted and with every single systematic fault applied.
REGRESSION_INPUTS = [
    ('F1', '2 3 0'),
    ('surrogate-name', '2 1\n1 1 0\n1 2 0\n0\n"A\ud800"\n"B"\n"t \udfff"\n'),
    ('surrogate-junk', '2 1\n1 1 0\n1 2 0\n0\n"A"\n"B"\n"t"\n\udc80 junk\n'),
    ('F1b', '3 1\n1 1 0\n0\n"A"'),
    ('F2', '3 1\n-22\n1 1 0\n1 2 0\n1 3 0\n0\n"A"\n"B"\n"C"\n"t"\n'),
    ('F3', '3 1\n' + '9' * 4400 + ' 1 0\n0\n"A"\n"B"\n"C"\n"t"\n'),
    ('F5', '3 1\n[withdrawn  3  ]\n4\t2=3=3\t0\n0\n"A"\n"B"\n"C"\n"t"\n'),
    ('F7', '3' * 300 + ' 1\n1 ' + '9' * 30 + ' 0\n0\n"A"\n"t"\n'),
    ('F7b', '18446744073709551616 1\n1 18446744073709551616 0\n0\n"A"\n"t"\n'),
    ('F7c', '70000 1\n1 65536 0\n0\n"A"\n"t"\n'),
    ('F3b', '3 1\n' + '9' * 4300 + ' 1 0\n2 2 0\n1 3 0\n0\n"A"\n"B"\n"C"\n"t"\n'),
    ('format-option', '3 1 [{name}] 1 1 0 0'),
    ('format-option-b', '3 1\n[{0.a} x ]\n1 1 0\n0'),
    ('long-id', '2 1\n(0123456789abcdef0123456789abcdef0123) 1 0\n(fedcba9876543210fedcba9876543210fedc) 2 1 0\n0\n"A"\n"B"\n"t"\n'),
    ('long-rank', '2 1\n[nick aaaaaaaaaaaaaaaaaaaaaaaaaaaaaaaaaaaa bbbbbbbbbbbbbbbbbbbbbbbbbbbbbbbbbbbb]\n1 aaaaaaaaaaaaaaaaaaaaaaaaaaaaaaaaaaaa=bbbbbbbbbbbbbbbbbbbbbbbbbbbbbbbbbbbb 0\n1 bbbbbbbbbbbbbbbbbbbbbbbbbbbbbbbbbbbb 0\n0\n"A"\n"B"\n"t"\n'),
    ('zero-candidates', '0 1 0 0'),
    ('zero-candidates-b', '0 0 0 title'),
    ('negative-seats', '3 -1\n1 1 0\n1 2 0\n1 3 0\n0\n"A"\n"B"\n"C"\n"t"\n'),
    ('lone-quote', '2 1\n1 1 0\n1 2 0\n0\n" A"\n"B"\n"t"\n'),
    ('open-comment', '2 1\n1 1 0 /* never closed\n1 2 0\n0\n"A"\n"B"\n"t"\n'),
    ('open-option', '3 2 [tie 3 2'),
    ('open-name', '2 1\n1 1 0\n1 2 0\n0\n"A"\n"B C'),
    ('odd-separators', '2 1\x0c1 1 0\u2028x2 2 0\x1c0\x85"A"\r"B"\r"t"'),
]

#: alphabet of the exhaustive tiny-soup arm: every token sequence up to SOUP_LEN over it is read
SOUP_ALPHABET = ['0', '1', '2', '3', '-1', '"a"', '"b', 'c"', 'x', '[tie', '[nick', ']', '1]', '(i)', '1=2', '#', '/*', '*/',
                 '[{0}]', '"']
SOUP_LEN = 4


def work_soups(R, part, nparts):
    "exhaustive arm: every sequence of 0..SOUP_LEN tokens over SOUP_ALPHABET (slice part of nparts)"
    import itertools    # pylint: disable=import-outside-toplevel
    signal.signal(signal.SIGALRM, _alarm)
    acc = new_acc()
    j = 0
    for n in range(SOUP_LEN + 1):
        for toks in itertools.product(SOUP_ALPHABET, repeat=n):
            j += 1
            if j % nparts != part:
                continue
            data = " ".join(toks).encode('utf-8')
            if acc['probes'].get('hangs', 0) >= 3:
                continue
            res = evaluate(R, data, None, 'data' if j % 2 else 'path')
            if res['outcome'] == 'hang':
                acc['probes']['hangs'] = acc['probes'].get('hangs', 0) + 1
            _account(acc, ['tiny-soup'], None, res, True, len(data))
            for v in res['viol']:
                if len(acc['viol']) < 40:
                    acc['viol'].append(_viol_entry(v, 'soup', b'', [['foreign', data.hex()]], None, None, res['entry'],
                                                   data))
    return acc


def gen_bases(R, seed, tier, count, size_cap):
    """[(name, bytes)]: corpus files not larger than size_cap, then `count` generated files.

    Generated bases cover every rule's feature set; a few embed [droop ...] options; a few are 'wide'
    (255/256/257 candidates).
    """
    out = [('corpus/' + n, d) for n, d in gen.load_corpus(R.path, size_cap)]
    out += [('edge/%d' % i, t.encode('utf-8')) for i, t in enumerate(EDGE_BASES)]
    for i in range(count):
        rnd = rng(seed, 'disk-base', i)
        rule = gen.RULES[i % len(gen.RULES)]
        r = rnd.random()
        if i < 3:
            e = wide_election(rnd, (255, 256, 257)[i])      # array typecode boundary, always present
        elif r < 0.03:
            e = wide_election(rnd, rnd.choice((255, 256, 257)))
        else:
            # the parser does not care about the rule: offer every syntax feature whatever the rule,
            # and (swarm style) force feature combinations on some bases
            flags = {}
            frule = rule
            if i % 3 == 0:
                frule = 'meek'          # equal ranks allowed
            elif i % 3 == 1:
                frule = 'mpls'          # undeclared likely
            if i % 4 == 0:
                flags = dict(withdrawn=True, equal=True)
            elif i % 4 == 1:
                flags = dict(nick=True, tie=True)
            e = gen.gen_election(rnd, rule=frule, small=(rnd.random() < 0.6), flags=flags)
        if 0.04 <= r < 0.12:
            o = gen.gen_options(rnd, rule=rule, n=e['n'])
            e['droop'] = gen.droop_tokens(o, rnd)
        text = gen.render_blt(e, rnd)
        out.append(('gen/%d' % i, gen.encode_blt(text, rnd)))
    return out


# --------------------------------------------------------------------------
# fault generation
# --------------------------------------------------------------------------

SOUP = ['0', '1', '2', '3', '4', '7', '10', '-1', '-2', '-0', '00', '1=2', '2=3=1', '=', '1=', '=1', '[tie', '[nick',
        '[withdrawn', '[undeclared', '[droop', '[bogus', ']', '[tie]', '[nick]', '[droop]', '[', '(', ')', '(b1)',
        '(b', '1)', '"', '""', '"A"', '"A', 'B"', '#', '/*', '*/', '/*x*/', 'a', 'c1', 'A', '-', '--1', '1.5', '1e3',
        'a\u0301', '\u200f', '\u200b1', '1\xa02', '１２', '\u2028', '\u2029', '\x0b', '\x0c', '\x1d', '\x1e', '\x7f', '\ufffd',
        '"', '"""', '[[', ']]', '((', '))', '/*/*', '*/*/', '#*/', '"#', '"/*',
        '[{x}', '[{}]', '[{0.a}]', '[%s]', '[%(x)s', '{0}', '%d', '０', '٣', '²', '﻿', '\x00', '\x85', ' ', '\x1c', 'é', '李', '\U0001f600', '9' * 30]

IO_FAULTS = ('ENOENT', 'EACCES', 'EISDIR', 'EMFILE', 'EIO-before', 'EIO-after', 'ENOMEM-read')


def soup(rnd):
    "bytes of a token soup over the BLT alphabet (the file on disk is not a ballot file at all)"
    toks = [rnd.choice(SOUP) for _ in range(rnd.randint(0, 60))]
    seps = [rnd.choice([' ', ' ', ' ', '\n', '\n', '\t', '\r\n', '  ']) for _ in toks]
    s = "".join(t + p for t, p in zip(toks, seps))
    return s.encode('utf-8', 'surrogatepass')


def gen_fault(rnd, data, naux):
    "one storage fault applicable to data (len n); naux = length of the other file (stale-tail)"
    n = len(data)
    spans = None
    r = rnd.random()

    def block():
        nonlocal spans
        if n == 0:
            return 0, 0
        r2 = rnd.random()
        if r2 < 0.45:
            if spans is None:
                spans = simfs.token_spans(data)
            if spans:
                a, b = rnd.choice(spans)
                return a, b - a
        elif r2 < 0.6:
            atoms = simfs.atom_spans(data)
            if atoms:
                # an atom of an equal-rank group / name=value pair, with the '=' before or after it
                a, b = rnd.choice(atoms)
                if a > 0 and data[a - 1:a] == b'=' and rnd.random() < 0.6:
                    return a - 1, b - a + 1
                if data[b:b + 1] == b'=':
                    return a, b - a + 1
                return a, b - a
        a = rnd.randrange(n)
        return a, min(n - a, rnd.randint(1, 32))
    if r < 0.16:
        return ['truncate', rnd.randint(0, n)]
    if r < 0.26:
        a, l = block()
        return ['drop', a, l]
    if r < 0.36:
        a, l = block()
        return ['dup', a, l]
    if r < 0.44:
        a, l = block()
        if spans is None:
            spans = simfs.token_spans(data)
        l2 = rnd.randint(1, 16)
        for (s, e) in spans or ():
            if s >= a + l:
                l2 = e - (a + l)
                break
        return ['swap', a, l, max(1, l2)]
    if r < 0.56:
        return ['bitflip', rnd.randrange(max(1, n)), rnd.randrange(8)]
    if r < 0.62:
        return ['bytesub', rnd.randrange(max(1, n)), rnd.choice((0x30, 0x20, 0x0a, 0x22, 0x5b, 0x5d, 0x28, 0x29, 0x2d,
                                                                 0x3d, 0x23, 0x2a, 0x2f, 0x39, rnd.randrange(256)))]
    if r < 0.67:
        a, l = block()
        return ['zero', a, l]
    if r < 0.70:
        a, l = block()
        return ['fill', a, l, rnd.choice((0xff, 0x20, 0x30, 0x39, 0x0a))]
    if r < 0.75:
        a, l = block()
        return ['amplify', a, max(1, min(l, 8)), rnd.choice((2, 3, 10, 300, 1200, 5000))]
    if r < 0.82 and naux:
        return ['stale-tail', rnd.randint(0, n)]
    if r < 0.85 and naux:
        return ['stale-head', rnd.randint(0, n)]
    if r < 0.87:
        return ['insert', rnd.randint(0, n), soup(rnd)[:rnd.randint(1, 24)].hex()]
    if r < 0.89:
        return ['bom-dup']
    if r < 0.91:
        return ['bom-mid', rnd.randint(0, n)]
    if r < 0.92:
        return ['utf16']
    if r < 0.94:
        return [rnd.choice(('crlf', 'cr', 'nonl'))]
    if r < 0.96:
        return ['latin1', rnd.randint(0, n), rnd.randrange(0x80, 0x100)]
    if r < 0.98:
        return ['foreign', soup(rnd).hex()]
    if r < 0.99:
        return ['blank']
    return ['empty']


def enumerate_faults(data):
    "the enumeration arm for one base: every single fault of the systematic kinds"
    n = len(data)
    for k in range(n + 1):
        yield [['truncate', k]], None
    for k in range(n):
        yield [['drop', k, 1]], None
    for k in range(n):
        yield [['dup', k, 1]], None
    for (a, b) in simfs.atom_spans(data):
        if a > 0 and data[a - 1:a] == b'=':
            yield [['dup', a - 1, b - a + 1]], None     # x=y   -> x=y=y
            yield [['drop', a - 1, b - a + 1]], None    # x=y   -> x
        if data[b:b + 1] == b'=':
            yield [['dup', a, b - a + 1]], None         # x=y   -> x=x=y
            yield [['drop', a, b - a + 1]], None        # x=y   -> y
    for k in range(n):
        for bit in range(8):
            yield [['bitflip', k, bit]], None
    spans = simfs.token_spans(data)
    for i, (a, b) in enumerate(spans):
        yield [['drop', a, b - a]], None
        # duplicate the token together with the separator that follows it
        nxt = spans[i + 1][0] if i + 1 < len(spans) else n
        yield [['dup', a, nxt - a]], None
        if i + 1 < len(spans):
            a2, b2 = spans[i + 1]
            yield [['swap', a, a2 - a, b2 - a2]], None
    for io in IO_FAULTS:
        yield [], io
    yield [['empty']], None
    yield [['blank']], None
    yield [], 'PATH-EMPTY'
    if n <= 420:
        # a token replaced by a long run of one character plus a troublesome ending (what catastrophic
        # backtracking and recursion need and single-byte damage never produces)
        for (a, b) in spans:
            for ch in (0x31, 0x61):
                for suffix in (b'', b'==', b'((', b'))', b'=', b'"', b'_x'):
                    yield [['drop', a, b - a], ['insert', a, (bytes([ch]) * 40 + suffix).hex()]], None


# --------------------------------------------------------------------------
# evaluation and oracle
# --------------------------------------------------------------------------

_DIGITS = re.compile(r'\d+')


def norm_msg(msg):
    "error message with digit runs and quoted material normalised (for distinct counting)"
    msg = re.sub(r'"[^"]*"', '"_"', msg)
    msg = re.sub(r'\(.*\)$', '(_)', msg)
    return _DIGITS.sub('#', msg)[:70]


def check_profile(p):
    "list of violated invariants of an accepted profile (what C15/C16 state; nothing about names or titles)"
    bad = []
    try:
        n = p.nCand
        if not isinstance(n, int) or n < 1:
            bad.append('nCand=%r' % (n,))
            return bad
        if not isinstance(p.nSeats, int) or isinstance(p.nSeats, bool) or p.nSeats < 1:
            bad.append('nSeats=%r < 1' % (p.nSeats,))
        elig = set(p.eligible)
        wd = set(p.withdrawn)
        if isinstance(p.nSeats, int) and p.nSeats > len(elig):
            bad.append('nSeats %r > %d eligible' % (p.nSeats, len(elig)))
        total = 0
        for bl in p.ballotLines:
            rk = list(bl.ranking)
            total += bl.multiplier
            if not isinstance(bl.multiplier, int) or bl.multiplier < 1:
                bad.append('multiplier %r < 1' % (bl.multiplier,))
            if not rk:
                bad.append('empty kept ranking')
            if len(set(rk)) != len(rk):
                bad.append('repeated candidate in a ranking')
            for c in rk:
                if c in wd:
                    bad.append('withdrawn candidate %r in a ranking' % (c,))
                if not 1 <= c <= n:
                    bad.append('out-of-range candidate %r in a ranking' % (c,))
        for bl in p.ballotLinesEqual:
            flat = [c for grp in bl.ranking for c in grp]
            total += bl.multiplier
            if not isinstance(bl.multiplier, int) or bl.multiplier < 1:
                bad.append('multiplier %r < 1' % (bl.multiplier,))
            if not flat or any(len(grp) == 0 for grp in bl.ranking):
                bad.append('empty kept ranking')
            if len(set(flat)) != len(flat):
                bad.append('repeated candidate in a ranking')
            for c in flat:
                if c in wd:
                    bad.append('withdrawn candidate %r in a ranking' % (c,))
                if not isinstance(c, int) or not 1 <= c <= n:
                    bad.append('out-of-range candidate %r in a ranking' % (c,))
        if p.nBallots != total:
            bad.append('nBallots %r != sum of multipliers %r' % (p.nBallots, total))
        if p.nBallots < len(elig):
            bad.append('nBallots %r < %d eligible' % (p.nBallots, len(elig)))
    except Exception as e:      # pylint: disable=broad-except
        bad.append('profile attributes unusable: %s: %s' % (type(e).__name__, str(e)[:80]))
    return sorted(set(bad))[:6]


#: the path string itself is part of what is offered (spaces, non-ASCII, no extension, relative, format characters)
SIM_PATHS = [SIM_PATH, '/simfs/my ballots (final).blt', '/simfs/wähler-№1.BLT', 'ballots', './rel/ballots.blt',
             '/simfs/100%s{0}.blt', '/simfs/' + 'x' * 200 + '.blt',
             # the path argument need not be a str: a pathlib object, a bytes path
             'pathlib:/simfs/from pathlib.blt', 'bytes:/simfs/bytes-path.blt']


def evaluate(R, data, io_fault=None, entry='path', clock=False, path=None):
    """read `data` (bytes on the simulated disk) through droop and judge the outcome.

    returns dict(outcome, key..., viol=[...]); outcome in accepted / profile-error / foreign / hang
    """
    PE = R.droop.profile.ElectionProfileError
    res = dict(outcome=None, viol=[], msg=None, site=None, steps=0, closed=None)
    fs = simfs.SimFS()
    open_fault = io_fault if io_fault in ('ENOENT', 'EACCES', 'EISDIR', 'EMFILE') else None
    read_fault = io_fault if io_fault in ('EIO-before', 'EIO-after', 'ENOMEM-read') else None
    path_arg = None
    if isinstance(path, str) and path.startswith('pathlib:'):
        import pathlib      # pylint: disable=import-outside-toplevel
        path = path[len('pathlib:'):]
        path_arg = pathlib.PurePosixPath(path)
    elif isinstance(path, str) and path.startswith('bytes:'):
        path = path[len('bytes:'):]
        path_arg = path.encode('utf-8')
    fs.put(path or SIM_PATH, data, open_fault=open_fault, read_fault=read_fault)
    text = None
    if entry == 'data':
        try:
            text = data.decode('utf-8-sig')
        except UnicodeDecodeError:
            try:
                # a text with lone surrogates: it cannot lie on disk as UTF-8, but it is a string a caller can hand
                # to ElectionProfile(data=...) ("arbitrary unicode")
                text = data.decode('utf-8-sig', 'surrogatepass')
            except UnicodeDecodeError:
                entry = 'path'
    res['entry'] = entry
    if entry == 'main' and getattr(R, 'Droop', None) is None:
        entry = res['entry'] = 'path'
    sim_path = '' if io_fault == 'PATH-EMPTY' else (path_arg if path_arg is not None else (path or SIM_PATH))   # ElectionProfile(path='') names no file at all
    p = None
    exc = None
    budget = parser_budget(len(data))
    big = len(data) >= BIG_FILE
    import time as _time        # pylint: disable=import-outside-toplevel
    cpu0 = _time.process_time()
    signal.setitimer(signal.ITIMER_REAL, CPU_LIMIT * 4 if big else WALL_LIMIT)
    try:
        with simfs.mounted(R.droop.profile, fs):
            if clock:
                with ParseClock(R, budget) as pc:
                    try:
                        p = (R.droop.profile.ElectionProfile(path=sim_path) if entry == 'path'
                             else R.droop.profile.ElectionProfile(data=text))
                    finally:
                        res['steps'] = pc.n
            elif entry == 'main':
                p = _read_through_driver(R, sim_path)
            else:
                p = (R.droop.profile.ElectionProfile(path=sim_path) if entry == 'path'
                     else R.droop.profile.ElectionProfile(data=text))
    except Hang:
        signal.setitimer(signal.ITIMER_REAL, 0)
        if big:
            res['outcome'] = 'hang'
            res['viol'].append(dict(cls='hang', exc=None, frame=None, line_text='cpu-limit',
                                    msg='reading %d bytes did not finish within %.0f s' % (len(data), CPU_LIMIT * 4)))
            return res
        if clock:
            # second wall-clock alarm, this time under the step clock without the budget being reached: the
            # reader is stuck inside a single package line (e.g. catastrophic regex backtracking in C code)
            res['outcome'] = 'hang'
            res['viol'].append(dict(cls='hang', exc=None, frame=None, line_text='stuck-in-one-line',
                                    msg='reading %d bytes ran into the %ds wall-clock limit twice while the step '
                                        'clock stood at %d line events (stuck inside one line)' % (
                                            len(data), WALL_LIMIT, res.get('steps', 0))))
            return res
        # consult the deterministic step budget
        r2 = evaluate(R, data, io_fault, entry, clock=True, path=path)
        if r2['outcome'] != 'hang':
            r2['slow'] = True
        return r2
    except BudgetExceeded:
        res['outcome'] = 'hang'
        res['viol'].append(dict(cls='hang', exc=None, frame=None, line_text=None,
                                msg='parser exceeded %d line events on %d bytes' % (budget, len(data))))
        return res
    except PE as e:
        exc = e
        res['outcome'] = 'profile-error'
    except BaseException as e:      # pylint: disable=broad-except
        exc = e
        res['outcome'] = 'foreign'
    finally:
        signal.setitimer(signal.ITIMER_REAL, 0)
    res['closed'] = fs.stats['closes'] >= fs.stats['opens'] - fs.stats['open_raised']
    res['cpu'] = _time.process_time() - cpu0
    if big and res['cpu'] > CPU_LIMIT and not clock:
        res['outcome'] = 'hang'
        res['viol'].append(dict(cls='hang', exc=None, frame=None, line_text='cpu-limit',
                                msg='reading %d bytes took %.0f CPU seconds (limit %.0f; the unchanged tree needs '
                                    'well under one)' % (len(data), res['cpu'], CPU_LIMIT)))
        return res
    if exc is not None:
        tb = exc.__traceback__
        last = None
        while tb is not None:
            if tb.tb_frame.f_code.co_filename.startswith(R.pkgdir):
                last = tb
            tb = tb.tb_next
        if last is not None:
            res['site'] = "%s:%d" % (last.tb_frame.f_code.co_name, last.tb_lineno)
        res['msg'] = norm_msg(str(exc))
        if res['outcome'] == 'foreign':
            frame, line_text = exc_info_in_tree(R, exc)
            res['viol'].append(dict(cls='foreign-exception', exc=type(exc).__name__, frame=frame, line_text=line_text,
                                    msg=str(exc)[:160]))
        return res
    res['outcome'] = 'accepted'
    bad = check_profile(p)
    if bad:
        res['viol'].append(dict(cls='invalid-profile', exc=None, frame=None, line_text=re.sub(r'\d+', '#', bad[0]),
                                msg="; ".join(bad)[:300]))
    has_options = bool(getattr(p, 'options', None))
    res['has_options'] = has_options
    if not has_options and not bad:
        with sunk_stdout():
            for r in R.droop.electionRuleNames():
                try:
                    R.droop.election.Election(p, {'rule': r})
                except BaseException as e:      # pylint: disable=broad-except
                    # the eleven constructions run in one process; a failure that only shows after the earlier ones
                    # is history dependence (C20's subject).  The statement is about each rule by itself: confirm in a
                    # really fresh interpreter before calling it a C16 violation.
                    ckey = (r, type(e).__name__)
                    alone = _ALONE_SEEN.get(ckey) if _ALONE_CALLS[0] >= 8 else None
                    if alone is None:
                        alone = _constructs_alone(R, data, res['entry'], path, r)
                        if alone != '?':
                            _ALONE_SEEN[ckey] = alone
                    if alone == 'ok':
                        res['constructor_failure_history_dependent'] = True
                        break
                    frame, line_text = exc_info_in_tree(R, e)
                    res['viol'].append(dict(cls='constructor-fails', exc=type(e).__name__, frame=frame,
                                            line_text=line_text, msg='rule %s: %s' % (r, str(e)[:120])))
                    break
    return res


_ALONE = """
import base64, json, sys
sys.dont_write_bytecode = True
job = json.load(sys.stdin)
sys.path.insert(0, job['verif'])
from dsim import core, simfs
R = core.bind_repo(job['repo'])
data = base64.b64decode(job['data'])
fs = simfs.SimFS()
path = job['path'] or '/simfs/ballots.blt'
fs.put(path, data)
try:
    with core.sunk_stdout(), simfs.mounted(R.droop.profile, fs):
        p = R.droop.profile.ElectionProfile(path=path) if job['entry'] == 'path' else \
            R.droop.profile.ElectionProfile(data=data.decode('utf-8-sig'))
        R.droop.election.Election(p, {'rule': job['rule']})
    print('ok')
except BaseException as e:
    print('raises:' + type(e).__name__)
"""

_ALONE_CALLS = [0]
_ALONE_SEEN = {}      # (rule, exception type) -> verdict of the last confirmation in this worker


def _constructs_alone(R, data, entry, path, rule):
    "does Election(profile, {'rule': rule}) succeed when it is the first thing a fresh interpreter does? 'ok' / 'raises:X' / '?'"
    import json         # pylint: disable=import-outside-toplevel
    import os           # pylint: disable=import-outside-toplevel
    import subprocess   # pylint: disable=import-outside-toplevel
    from .core import VERIF_DIR     # pylint: disable=import-outside-toplevel
    if _ALONE_CALLS[0] >= 8 or len(data) > 5_000_000:
        return '?'          # enough confirmations in this worker; treat like the confirmed ones
    _ALONE_CALLS[0] += 1
    try:
        # the confirming interpreter runs in the same mode (-O or not) as this one
        p = subprocess.run([sys.executable] + (['-O'] if sys.flags.optimize else []) + ['-c', _ALONE], input=json.dumps(dict(
            verif=VERIF_DIR, repo=R.path, data=base64.b64encode(data).decode('ascii'), entry=entry, path=path,
            rule=rule)), env=dict(os.environ, PYTHONHASHSEED='0'), capture_output=True, text=True, timeout=120,
            check=False)
    except subprocess.TimeoutExpired:
        return '?'
    out = (p.stdout or '').strip().splitlines()
    return out[-1] if out else '?'


class _ProfileRead(BaseException):
    "raised by the stand-in Election class: Droop.main has read the profile"

    def __init__(self, profile):
        super().__init__('profile read')
        self.profile = profile


def _read_through_driver(R, sim_path):
    """the package's own driver, Droop.main, reads the file; it is cut off where it would build the Election (what a
    count does with the profile is not C16's subject).  Whatever main does with a profile error -- it lets it through
    today -- must still come out as the package's profile error."""
    D = R.Droop
    real = D.Election

    class _Cut:       # pylint: disable=too-few-public-methods
        def __init__(self, profile, options=None):      # pylint: disable=unused-argument
            raise _ProfileRead(profile)
    D.Election = _Cut
    try:
        D.main({'path': sim_path, 'rule': 'wigm'})
    except _ProfileRead as got:
        return got.profile
    finally:
        D.Election = real
    raise RuntimeError('Droop.main returned without building an Election')


def signature(v):
    "known-findings signature"
    return dict(clause=v['cls'], exc=v.get('exc'), frame=v.get('frame'), line_text=v.get('line_text'))


def vclass(v):
    "class kept fixed during minimisation and replay"
    return [v['cls'], v.get('exc'), v.get('frame'), v.get('line_text')]


# --------------------------------------------------------------------------
# work units
# --------------------------------------------------------------------------

def _account(acc, kinds, io, res, changed, nbytes):
    acc['evals'] += 1
    acc['bytes'] += nbytes
    acc['steps'] += res.get('steps', 0)
    oc = res['outcome']
    acc['outcomes'][oc] = acc['outcomes'].get(oc, 0) + 1
    for kd in kinds:
        acc['faults'][kd] = acc['faults'].get(kd, 0) + 1
    if io:
        acc['faults']['io:' + io] = acc['faults'].get('io:' + io, 0) + 1
    if changed:
        acc['keys'].add("%s|%s|%s|%s|%s" % ("+".join(sorted(kinds)), io or '-', oc, res.get('msg') or '-',
                                             res.get('site') or '-'))
    if oc == 'profile-error' and res.get('site'):
        acc['sites'][res['site']] = acc['sites'].get(res['site'], 0) + 1
    pr = acc['probes']
    if oc == 'accepted':
        pr['accepted'] = pr.get('accepted', 0) + 1
        if res.get('has_options'):
            pr['accepted_with_options'] = pr.get('accepted_with_options', 0) + 1
        else:
            pr['constructed_under_all_rules'] = pr.get('constructed_under_all_rules', 0) + (0 if res['viol'] else 1)
    if res.get('msg') and 'codec' in res['msg']:
        pr['decode_error'] = pr.get('decode_error', 0) + 1
    if res.get('closed') is False:
        pr['handle_not_closed'] = pr.get('handle_not_closed', 0) + 1
    if res.get('slow'):
        pr['slow_not_hang'] = pr.get('slow_not_hang', 0) + 1
    if res.get('constructor_failure_history_dependent'):
        pr['constructor_failure_only_after_other_rules'] = pr.get('constructor_failure_only_after_other_rules', 0) + 1
    if res.get('msg'):
        m = res['msg']
        for tag, needle in (('eof_in_names', 'candidate name'), ('eof_in_title', 'election title'),
                            ('eof_generic', 'unexpected end-of-file'), ('eof_in_source', 'election source'),
                            ('eof_in_comment', 'election comment')):
            if needle in m:
                pr[tag] = pr.get(tag, 0) + 1


def new_acc():
    "empty accumulator"
    return dict(evals=0, bytes=0, steps=0, outcomes={}, faults={}, keys=set(), sites={}, probes={}, viol=[],
                samples=[])


def _viol_entry(v, base_name, base, faults, aux, io, entry, data, path=None):
    d = dict(v)
    d.update(base_name=base_name, base_b64=base64.b64encode(base).decode('ascii'), faults=faults,
             aux_b64=base64.b64encode(aux).decode('ascii') if aux else None, io_fault=io, entry=entry,
             nbytes=len(data), sim_path=path, low_digits=bool(v.get('low_digits')))
    return d


def work_enumerate(R, seed, base_name, base, part, nparts):
    "enumeration arm: every systematic single fault on one base (this worker takes slice part of nparts)"
    signal.signal(signal.SIGALRM, _alarm)
    acc = new_acc()
    for j, (faults, io) in enumerate(enumerate_faults(base)):
        if j % nparts != part:
            continue
        data = simfs.apply_faults(base, faults)
        if acc['probes'].get('hangs', 0) >= 3:
            acc['probes']['skipped_after_hangs'] = acc['probes'].get('skipped_after_hangs', 0) + 1
            continue
        res = evaluate(R, data, io, 'path', clock=(j % 97 == 0))
        if res['outcome'] == 'hang':
            acc['probes']['hangs'] = acc['probes'].get('hangs', 0) + 1
        kinds = [f[0] for f in faults]
        _account(acc, kinds, io, res, data != base or bool(io), len(data))
        for v in res['viol']:
            if len(acc['viol']) < 40:
                acc['viol'].append(_viol_entry(v, base_name, base, faults, None, io, res['entry'], data))
        if j == part and not acc['samples']:
            acc['samples'].append(dict(base=base_name, faults=faults, io_fault=io, outcome=res['outcome'],
                                       message=res.get('msg')))
    return acc


def work_sequences(R, seed, bases, first, count, realfs=0.0):
    "sequence arm: runs first..first+count-1, each a seeded sequence of 1-6 mixed faults on a seeded base"
    import shutil       # pylint: disable=import-outside-toplevel
    import tempfile     # pylint: disable=import-outside-toplevel
    signal.signal(signal.SIGALRM, _alarm)
    acc = new_acc()
    nb = len(bases)
    scratch = tempfile.mkdtemp(prefix='droop-c16-realfs-') if realfs > 0 else None
    try:
        _work_sequences(R, seed, bases, first, count, realfs, scratch, acc, nb)
    finally:
        if scratch:
            shutil.rmtree(scratch, ignore_errors=True)
    return acc


def _work_sequences(R, seed, bases, first, count, realfs, scratch, acc, nb):
    for i in range(first, first + count):
        rnd = rng(seed, 'disk', i)
        bi = rnd.randrange(nb)
        base_name, base = bases[bi]
        aux_name, aux = bases[rnd.randrange(nb)]
        r = rnd.random()
        nf = 1 if r < 0.35 else 2 if r < 0.6 else rnd.randint(3, 6)
        data = base
        faults = []
        used_aux = False
        for _ in range(nf):
            f = gen_fault(rnd, data, len(aux))
            faults.append(f)
            if f[0].startswith('stale'):
                used_aux = True
            data = simfs.apply_fault(data, f, aux)
        io = rnd.choice(IO_FAULTS) if rnd.random() < 0.03 else None
        entry = 'data' if rnd.random() < 0.25 else 'path'
        if acc['probes'].get('hangs', 0) >= 3:
            acc['probes']['skipped_after_hangs'] = acc['probes'].get('skipped_after_hangs', 0) + 1
            continue
        clock = rnd.random() < 0.03
        path = rnd.choice(SIM_PATHS) if rnd.random() < 0.1 else None
        if rnd.random() < 0.08:
            entry = 'main'              # read by the package's own driver
        low_digits = rnd.random() < 0.06 and hasattr(sys, 'set_int_max_str_digits')
        if low_digits:
            # environment fault: the interpreter runs with the lowest int<->str digit limit it accepts
            # (PYTHONINTMAXSTRDIGITS=640); numbers of 641-4300 digits now fail to convert
            old_limit = sys.get_int_max_str_digits()
            sys.set_int_max_str_digits(640)
            acc['probes']['low_int_digit_limit'] = acc['probes'].get('low_int_digit_limit', 0) + 1
        try:
            res = evaluate(R, data, io, entry, clock=clock, path=path)
        finally:
            if low_digits:
                sys.set_int_max_str_digits(old_limit)
        if low_digits and res['viol']:
            for v_ in res['viol']:
                v_['low_digits'] = True
        if path:
            acc['probes']['odd_path_string'] = acc['probes'].get('odd_path_string', 0) + 1
        if res['outcome'] == 'hang':
            acc['probes']['hangs'] = acc['probes'].get('hangs', 0) + 1
        kinds = [f[0] for f in faults]
        _account(acc, kinds, io, res, data != base or bool(io), len(data))
        if data == base and not io:
            acc['probes']['fault_was_noop'] = acc['probes'].get('fault_was_noop', 0) + 1
        for v in res['viol']:
            if len(acc['viol']) < 40:
                acc['viol'].append(_viol_entry(v, base_name, base, faults, aux if used_aux else None, io,
                                               res['entry'], data, path))
        if i == first and not acc['samples']:
            acc['samples'].append(dict(run=i, base=base_name, faults=faults, io_fault=io, entry=res['entry'],
                                       outcome=res['outcome'], message=res.get('msg'), bytes_after=len(data)))
        if scratch and rnd.random() < realfs and len(data) < 200_000:
            agree, detail = realfs_crosscheck(R, data, io, scratch)
            pr = acc['probes']
            if agree is None:
                pr['realfs_not_applicable'] = pr.get('realfs_not_applicable', 0) + 1
            elif agree:
                pr['realfs_agree'] = pr.get('realfs_agree', 0) + 1
            else:
                pr['realfs_DISAGREE'] = pr.get('realfs_DISAGREE', 0) + 1
                acc.setdefault('stub_disagreements', []).append(dict(run=i, detail=detail))


def realfs_crosscheck(R, data, io, scratch):
    """read the same bytes through the builtin open() from a real file; (agree?, detail)

    Only faults a real file system can be asked for without privileges: none, ENOENT, EISDIR.
    """
    import os       # pylint: disable=import-outside-toplevel
    PE = R.droop.profile.ElectionProfileError
    path = os.path.join(scratch, 'ballots.blt')
    if io == 'ENOENT':
        path = os.path.join(scratch, 'missing.blt')
    elif io == 'EISDIR':
        path = scratch
    elif io is None:
        with open(path, 'wb') as f:
            f.write(data)
    else:
        return None, 'not reproducible on a real file system'
    sim = evaluate(R, data, io, 'path')
    if sim['outcome'] == 'hang':
        return None, 'the read hangs: nothing to compare'

    def norm(m):
        return re.sub(r"'[^']*'", "'_'", re.sub(r'ballot file \S+', 'ballot file _', m or ''))
    signal.setitimer(signal.ITIMER_REAL, WALL_LIMIT * 5)
    try:
        R.droop.profile.ElectionProfile(path=path)
        real = ('accepted', None)
    except Hang:
        return None, 'the read from the real file system did not return'
    except PE as e:
        real = ('profile-error', norm(norm_msg(str(e))))
    except BaseException as e:      # pylint: disable=broad-except
        real = ('foreign', type(e).__name__)
    finally:
        signal.setitimer(signal.ITIMER_REAL, 0)
    simo = (sim['outcome'], norm(sim.get('msg')) if sim['outcome'] == 'profile-error' else
            (sim['viol'][0].get('exc') if sim['outcome'] == 'foreign' and sim['viol'] else None))
    return simo == real, dict(sim=simo, real=real)


SCALE_BYTES = 600_000      # size of the amplified files of the scale arm


def scale_inputs(base, per_base=10):
    "[(fault list, description)]: one token (with its separator) of the base replayed until the file has SCALE_BYTES"
    spans = simfs.token_spans(base)
    if not spans:
        return []
    n = len(base)
    picks = []
    step = max(1, len(spans) // per_base)
    for i in range(0, len(spans), step):
        picks.append(i)
    out = []
    for i in picks[:per_base]:
        a, b = spans[i]
        nxt = spans[i + 1][0] if i + 1 < len(spans) else n
        l = max(1, nxt - a)
        out.append(([['amplify', a, l, max(2, SCALE_BYTES // l)]], 'token %r x%d' % (base[a:b][:12], SCALE_BYTES // l)))
    # a whole line replayed (many ballots / many option lines / many names)
    lines = [m for m in re.finditer(rb'[^\n]*\n', base)]
    for m in lines[1:len(lines):max(1, len(lines) // 4)][:4]:
        l = m.end() - m.start()
        if l > 1:
            out.append(([['amplify', m.start(), l, max(2, SCALE_BYTES // l)]], 'line %r x%d' % (m.group()[:16], SCALE_BYTES // l)))
    return out


def bulk_bases(seed):
    """[(name, bytes)]: large files with realistic structure -- tens of thousands of DISTINCT ballot lines, thousands of
    candidates -- which replaying one token never produces"""
    out = []
    rnd = rng(seed, 'disk-bulk', 0)
    n = 40
    lines = ["%d 5" % n, "[tie " + " ".join(str(c) for c in rnd.sample(range(1, n + 1), n)) + " ]", "-7 -19"]
    for _ in range(20000):
        k = rnd.randint(1, 12)
        lines.append("%d %s 0" % (rnd.randint(1, 99), " ".join(str(c) for c in rnd.sample(range(1, n + 1), k))))
    lines.append("0")
    lines += ['"Candidate %d"' % i for i in range(1, n + 1)]
    lines.append('"twenty thousand distinct ballots"')
    out.append(('bulk/ballots', ("\n".join(lines) + "\n").encode()))
    n = 3000
    lines = ["%d 3" % n]
    for _ in range(4000):
        k = rnd.randint(1, 6)
        lines.append("1 %s 0" % " ".join(str(c) for c in rnd.sample(range(1, n + 1), k)))
    lines.append("0")
    lines += ['"Name %d"' % i for i in range(1, n + 1)]
    lines.append('"three thousand candidates"')
    out.append(('bulk/candidates', ("\n".join(lines) + "\n").encode()))
    # beyond 16-bit limits: more than 65 535 non-empty ballot lines; more than 65 535 candidates with equal-rank groups
    # that name the highest ids (a counter, stamp or id packed into an unsigned short overflows exactly here)
    n = 12
    lines = ["%d 4" % n]
    for i in range(66000):
        k = 1 + i % 5
        lines.append("1 %s 0" % " ".join(str(1 + (i * 7 + j * 5) % n) for j in range(k) if True))
    lines.append("0")
    lines += ['"C%d"' % i for i in range(1, n + 1)]
    lines.append('"sixty-six thousand ballot lines"')
    # no repeats inside a line: 1 + (i*7 + j*5) % 12 for j < 5 are distinct (5*j mod 12 distinct for j = 0..4)
    out.append(('bulk/ballots-66k', ("\n".join(lines) + "\n").encode()))
    n = 66000
    lines = ["%d 2" % n, "70000 1 2 3 0", "5 65999=66000 65537 1 0", "3 65536=2 65535 0", "1 66000 0"]
    lines.append("0")
    lines += ['"N%d"' % i for i in range(1, n + 1)]
    lines.append('"sixty-six thousand candidates"')
    out.append(('bulk/candidates-66k', ("\n".join(lines) + "\n").encode()))
    return out


def work_bulk(R, seed, j):
    "bulk arm: a large realistic file, unfaulted and under a handful of single faults"
    signal.signal(signal.SIGALRM, _alarm)
    acc = new_acc()
    name, base = bulk_bases(seed)[j]
    rnd = rng(seed, 'disk-bulk-faults', j)
    n = len(base)
    cases = [[]]
    for _ in range(6 if j < 2 else 2):
        cases.append([rnd.choice((['truncate', rnd.randint(0, n)], ['drop', rnd.randrange(n), rnd.randint(1, 40)],
                                  ['bitflip', rnd.randrange(n), rnd.randrange(8)],
                                  ['dup', rnd.randrange(n), rnd.randint(1, 2000)],
                                  ['zero', rnd.randrange(n), rnd.randint(1, 4096)]))])
    for faults in cases:
        data = simfs.apply_faults(base, faults)
        res = evaluate(R, data, None, 'path')
        _account(acc, [f[0] for f in faults] + ['bulk'], None, res, True, len(data))
        acc['probes']['bulk_reads'] = acc['probes'].get('bulk_reads', 0) + 1
        acc['cpu_max'] = max(acc.get('cpu_max', 0.0), res.get('cpu', 0.0))
        for v in res['viol']:
            acc['viol'].append(_viol_entry(v, name, base, faults, None, None, 'path', data))
    return acc


def work_scale(R, seed, base_name, base):
    """scale arm: a stuck write replays one token or one line until the file is large; reading must stay (near) linear.

    The verdict is a CPU-time bound with a margin of two orders of magnitude over the unchanged tree, not a step
    count: super-linear work hidden inside C calls (string joins, regex backtracking) produces no trace events.
    """
    signal.signal(signal.SIGALRM, _alarm)
    acc = new_acc()
    for faults, desc in scale_inputs(base):
        data = simfs.apply_faults(base, faults)
        if acc['probes'].get('hangs', 0) >= 2:
            acc['probes']['skipped_after_hangs'] = acc['probes'].get('skipped_after_hangs', 0) + 1
            continue
        res = evaluate(R, data, None, 'path')
        if res['outcome'] == 'hang':
            acc['probes']['hangs'] = acc['probes'].get('hangs', 0) + 1
        _account(acc, ['amplify-scale'], None, res, True, len(data))
        acc['probes']['scale_reads'] = acc['probes'].get('scale_reads', 0) + 1
        acc['cpu_max'] = max(acc.get('cpu_max', 0.0), res.get('cpu', 0.0))
        for v in res['viol']:
            v = dict(v)
            v['msg'] = '%s [%s]' % (v.get('msg'), desc)
            acc['viol'].append(_viol_entry(v, base_name, base, faults, None, None, 'path', data))
    return acc


def work_faultfree(R, bases):
    "fault-free arm: every base unfaulted goes through the same oracle, through both entry points"
    signal.signal(signal.SIGALRM, _alarm)
    acc = new_acc()
    for base_name, base in bases:
        for entry in ('path', 'data'):
            res = evaluate(R, base, None, entry, clock=True)
            _account(acc, [], None, res, False, len(base))
            for v in res['viol']:
                acc['viol'].append(_viol_entry(v, base_name, base, [], None, None, res['entry'], base))
    return acc


# --------------------------------------------------------------------------
# replay and minimisation
# --------------------------------------------------------------------------

def replay_object(R, seed, v, reduced=None):
    "replay file content"
    return dict(property='C16', verif_seed=seed, engine='disk', base_name=v['base_name'], base_b64=v['base_b64'],
                faults=v['faults'], aux_b64=v.get('aux_b64'), io_fault=v.get('io_fault'), entry=v.get('entry', 'path'),
                sim_path=v.get('sim_path'), low_digits=v.get('low_digits', False), optimised=bool(v.get('optimised')),
                reduced_b64=reduced,
                violation={k: v.get(k) for k in ('cls', 'exc', 'frame', 'line_text', 'msg')}, tree=R.tree)


def stored_bytes(obj):
    "the bytes on the simulated disk that a replay object describes"
    base = base64.b64decode(obj['base_b64'])
    aux = base64.b64decode(obj['aux_b64']) if obj.get('aux_b64') else b''
    return simfs.apply_faults(base, obj['faults'], aux)


def run_replay(R, obj):
    "re-execute a replay file: violations of the recorded (base + faults) form and of the reduced form"
    signal.signal(signal.SIGALRM, _alarm)
    data = stored_bytes(obj)
    if obj.get('low_digits') and hasattr(sys, 'set_int_max_str_digits'):
        sys.set_int_max_str_digits(640)         # the replay process lives only for this file
    res = evaluate(R, data, obj.get('io_fault'), obj.get('entry', 'path'), path=obj.get('sim_path'))
    out = list(res['viol'])
    if not out and (obj.get('violation') or {}).get('cls') == 'hang':
        # a step-budget verdict is only observable under the step clock (a seeded 1-3 % of the reads run under it)
        res = evaluate(R, data, obj.get('io_fault'), obj.get('entry', 'path'), clock=True, path=obj.get('sim_path'))
        out = list(res['viol'])
    red = None
    if obj.get('reduced_b64') is not None:
        rd = base64.b64decode(obj['reduced_b64'])
        r2 = evaluate(R, rd, obj.get('io_fault'), obj.get('entry', 'path'), path=obj.get('sim_path'))
        red = [vclass(v) for v in r2['viol']]
    return out, res['outcome'], red


def minimise(R, seed, v):
    "ddmin over the fault list, then over the lines and tokens of the faulted file (kept as `reduced`)"
    signal.signal(signal.SIGALRM, _alarm)
    target = vclass(v)
    if v['cls'] == 'hang' or v.get('optimised'):
        # hang: every test would cost the full time limit; optimised: shows only in an interpreter started with -O,
        # which this process is not -- keep the case as found
        return replay_object(R, seed, v)
    base = base64.b64decode(v['base_b64'])
    aux = base64.b64decode(v['aux_b64']) if v.get('aux_b64') else b''
    io = v.get('io_fault')
    entry = v.get('entry', 'path')

    if v.get('low_digits') and hasattr(sys, 'set_int_max_str_digits'):
        sys.set_int_max_str_digits(640)         # minimisation runs in its own child

    def shows(data, io_):
        res = evaluate(R, data, io_, entry, path=v.get('sim_path'))
        return any(vclass(x) == target for x in res['viol'])

    faults = list(v['faults'])
    if faults:
        faults = ddmin(faults, lambda fl: shows(simfs.apply_faults(base, fl, aux), io), max_tests=60)
    if io and shows(simfs.apply_faults(base, faults, aux), None):
        io = None
    data = simfs.apply_faults(base, faults, aux)
    reduced = None
    if shows(data, io):
        # reduce the stored bytes themselves: lines, then tokens (kept whitespace-separated)
        lines = data.split(b'\n')
        if len(lines) > 1:
            lines = ddmin(lines, lambda ls: shows(b'\n'.join(ls), io), max_tests=120)
        cur = b'\n'.join(lines)
        toks = re.split(rb'(\s+)', cur)
        if len(toks) > 1:
            toks = ddmin(toks, lambda ts: shows(b''.join(ts), io), max_tests=200)
        cur = b''.join(toks)
        if shows(cur, io):
            reduced = base64.b64encode(cur).decode('ascii')
    v2 = dict(v, faults=faults, io_fault=io)
    if not any(f[0].startswith('stale') for f in faults):
        v2['aux_b64'] = None
    return replay_object(R, seed, v2, reduced)
