"""dsim -- deterministic simulation with fault injection for jklundell/droop.

See /verif/DESIGN.md.  Nothing in this package imports droop at module import
time; the repository under test is bound explicitly with core.bind_repo().
"""
