"""SimFS -- the simulated disk behind droop.profile's open() (DESIGN 4.4).

droop.profile calls the builtin open(path, 'r', encoding='utf-8-sig') once and
read()s the whole file.  `open` is looked up as a module global first, so setting
droop.profile.open shadows the builtin for that module only; nothing in /repo
is edited.  A SimFS maps path -> stored bytes plus an optional read-side fault.
The returned object is a real io.TextIOWrapper over io.BytesIO: the real
decoder, BOM handling and universal-newline translation run.
"""

import errno
import io
import os

ERRNOS = {
    'ENOENT': errno.ENOENT,
    'EACCES': errno.EACCES,
    'EISDIR': errno.EISDIR,
    'EMFILE': errno.EMFILE,
    'EIO': errno.EIO,
}


class _File(io.TextIOWrapper):
    "text file over stored bytes; read() may fail after the data was consumed"

    def __init__(self, fs, data, encoding, errors, newline, read_fault):
        super().__init__(io.BytesIO(data), encoding=encoding, errors=errors, newline=newline)
        self._fs = fs
        self._read_fault = read_fault

    def read(self, size=-1):
        self._fs.stats['read_calls'] += 1
        if self._read_fault == 'EIO-before':
            self._fs.stats['read_raised'] += 1
            raise OSError(errno.EIO, os.strerror(errno.EIO))
        if self._read_fault == 'ENOMEM-read':
            # the whole-file read cannot get its buffer (a file larger than the address space the process may use)
            self._fs.stats['read_raised'] += 1
            raise MemoryError()
        data = super().read(size)
        if self._read_fault == 'EIO-after':
            self._fs.stats['read_raised'] += 1
            raise OSError(errno.EIO, os.strerror(errno.EIO))
        return data

    def close(self):
        if not self.closed:
            self._fs.stats['closes'] += 1
        super().close()


class SimFS:
    "path -> bytes, with faults at the open and read seams"

    def __init__(self):
        self.files = {}
        self.open_fault = {}     # path -> errno name
        self.read_fault = {}     # path -> 'EIO-before' | 'EIO-after'
        self.stats = dict(opens=0, open_raised=0, read_calls=0, read_raised=0, closes=0)

    def put(self, path, data, open_fault=None, read_fault=None):
        "store bytes (and optionally arm a fault) under path"
        self.files[path] = bytes(data)
        if open_fault:
            self.open_fault[path] = open_fault
        else:
            self.open_fault.pop(path, None)
        if read_fault:
            self.read_fault[path] = read_fault
        else:
            self.read_fault.pop(path, None)

    def open(self, path, mode='r', buffering=-1, encoding=None, errors=None, newline=None, closefd=True, opener=None):
        "stands in for the builtin open() inside droop.profile"
        # pylint: disable=unused-argument
        self.stats['opens'] += 1
        path = os.fspath(path)
        if isinstance(path, bytes):
            path = os.fsdecode(path)
        fault = self.open_fault.get(path)
        if fault:
            self.stats['open_raised'] += 1
            raise OSError(ERRNOS[fault], os.strerror(ERRNOS[fault]), path)
        if path not in self.files:
            self.stats['open_raised'] += 1
            raise FileNotFoundError(errno.ENOENT, os.strerror(errno.ENOENT), path)
        if 'b' in mode:
            return io.BytesIO(self.files[path])
        return _File(self, self.files[path], encoding or 'utf-8', errors, newline, self.read_fault.get(path))


class mounted:
    "context manager: droop.profile.open = fs.open (module global shadowing the builtin)"

    def __init__(self, profile_module, fs):
        self.mod = profile_module
        self.fs = fs
        self._had = False
        self._old = None

    def __enter__(self):
        self._had = 'open' in self.mod.__dict__
        self._old = self.mod.__dict__.get('open')
        self.mod.open = self.fs.open
        return self.fs

    def __exit__(self, *exc):
        if self._had:
            self.mod.open = self._old
        else:
            try:
                del self.mod.open
            except AttributeError:
                pass
        return False


class stat_patched:
    """context manager: os.stat answers for simulated paths (so do os.path.exists/isfile/getsize/getmtime).

    The simulator owns the file's metadata too: the modification time of a simulated file never changes, which is
    the coarse-timestamp situation (a file rewritten within one tick of the file system's clock) that makes caches
    keyed by (path, size, mtime) return stale content.
    """

    def __init__(self, fs, mtime=1_700_000_000.0):
        self.fs = fs
        self.mtime = mtime
        self._old = None

    def __enter__(self):
        self._old = os.stat
        fs, mtime, old = self.fs, self.mtime, self._old

        def fake_stat(path, *args, **kwargs):
            try:
                p = os.fspath(path)
            except TypeError:
                p = None
            if isinstance(p, str) and p in fs.files:
                size = len(fs.files[p])
                return os.stat_result((0o100644, 1, 1, 1, 0, 0, size, mtime, mtime, mtime))
            return old(path, *args, **kwargs)
        os.stat = fake_stat
        return self

    def __exit__(self, *exc):
        os.stat = self._old
        return False


# --------------------------------------------------------------------------
# storage fault operators on stored bytes
# --------------------------------------------------------------------------
#
# A fault is a JSON-able list [kind, arg...]; apply_fault() is a pure function
# of (bytes, fault, aux) so a recorded fault list replays exactly.

import re

_TOKEN = re.compile(rb'\S+')


def token_spans(data):
    "[(start, end)] of whitespace-separated tokens"
    return [m.span() for m in _TOKEN.finditer(data)]


_ATOM = re.compile(rb'[^\s=]+')


def atom_spans(data):
    "[(start, end)] of the '='-separated atoms inside tokens that contain '=' (equal-rank groups, name=value)"
    out = []
    for m in _TOKEN.finditer(data):
        if b'=' in m.group():
            base = m.start()
            out.extend((base + a.start(), base + a.end()) for a in _ATOM.finditer(m.group()))
    return out


def apply_fault(data, fault, aux=b''):
    "apply one storage fault to data (bytes); aux = bytes of another file (for stale-tail)"
    kind = fault[0]
    n = len(data)
    if kind == 'truncate':
        return data[:max(0, min(n, fault[1]))]
    if kind == 'empty':
        return b''
    if kind == 'drop':
        a, l = fault[1], fault[2]
        return data[:a] + data[a + l:]
    if kind == 'zero':
        a, l = fault[1], fault[2]
        l = max(0, min(l, n - a))
        return data[:a] + b'\0' * l + data[a + l:]
    if kind == 'fill':          # unwritten sector filled with a byte pattern
        a, l, byte = fault[1], fault[2], fault[3]
        l = max(0, min(l, n - a))
        return data[:a] + bytes([byte]) * l + data[a + l:]
    if kind == 'dup':
        a, l = fault[1], fault[2]
        return data[:a + l] + data[a:a + l] + data[a + l:]
    if kind == 'amplify':       # stuck / replayed write of a block, N times
        a, l, times = fault[1], fault[2], fault[3]
        return data[:a] + data[a:a + l] * times + data[a + l:]
    if kind == 'swap':          # two adjacent blocks written in the wrong order
        a, l1, l2 = fault[1], fault[2], fault[3]
        return data[:a] + data[a + l1:a + l1 + l2] + data[a:a + l1] + data[a + l1 + l2:]
    if kind == 'bitflip':
        a, bit = fault[1], fault[2]
        if not 0 <= a < n:
            return data
        return data[:a] + bytes([data[a] ^ (1 << bit)]) + data[a + 1:]
    if kind == 'bytesub':
        a, byte = fault[1], fault[2]
        if not 0 <= a < n:
            return data
        return data[:a] + bytes([byte]) + data[a + 1:]
    if kind == 'insert':        # foreign bytes appear (misdirected write); payload is a hex string
        a, payload = fault[1], fault[2]
        return data[:a] + bytes.fromhex(payload) + data[a:]
    if kind == 'stale-tail':    # shorter rewrite over a longer older file
        a = fault[1]
        return data[:a] + aux[a:]
    if kind == 'stale-head':    # tail of the new file arrived, head is still the old file
        a = fault[1]
        return aux[:a] + data[a:]
    if kind == 'bom-dup':
        return b'\xef\xbb\xbf' + data
    if kind == 'bom-mid':
        a = fault[1]
        return data[:a] + b'\xef\xbb\xbf' + data[a:]
    if kind == 'utf16':
        try:
            return data.decode('utf-8-sig').encode('utf-16')
        except UnicodeDecodeError:
            return data
    if kind == 'crlf':
        return data.replace(b'\r\n', b'\n').replace(b'\n', b'\r\n')
    if kind == 'cr':
        return data.replace(b'\r\n', b'\n').replace(b'\n', b'\r')
    if kind == 'nonl':          # all line structure lost
        return data.replace(b'\r', b' ').replace(b'\n', b' ')
    if kind == 'latin1':
        a, byte = fault[1], fault[2]
        return data[:a] + bytes([byte]) + data[a:]
    if kind == 'blank':         # every byte replaced by white space (the text is whitespace only)
        return bytes(b if b in (0x0a, 0x0d, 0x09) else 0x20 for b in data)
    if kind == 'foreign':       # the wrong file altogether (hex string)
        return bytes.fromhex(fault[1])
    raise ValueError("unknown fault %r" % (fault,))


def apply_faults(data, faults, aux=b''):
    "apply a fault list in order"
    for f in faults:
        data = apply_fault(data, f, aux)
    return data
