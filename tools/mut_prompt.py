import sys
prop, wt, flavour = sys.argv[1], sys.argv[2], sys.argv[3]
text = open('/tmp/prop_%s.txt' % prop).read()
print(f"""You are helping to evaluate a verification harness by producing realistic *defect injections* ("mutants") for an open-source Python package, jklundell/droop (an STV election counter). You work ONLY inside your own scratch git worktree of the package at {wt} (a detached checkout). Do not read or write anything under /verif or /repo, and do not look at any other /tmp/mut_* directory. Write your results to {wt}.out/ (already exists).

The property your changes must BREAK is this (property id {prop}):

{text}

Your task: produce THREE independent source changes to the package (files under {wt}/droop/ or {wt}/Droop.py), each of which
 (1) breaks the property above for at least some inputs / interruption points / histories,
 (2) still imports and compiles, and still passes the complete existing test suite, which you run with:
       cd {wt} && /venv/bin/python -m pytest -q -p no:cacheprovider --timeout=900
     (207 tests pass on the unchanged tree; they must all still pass with your change applied),
 (3) looks like a realistic change a developer could make (a refactoring gone slightly wrong, an 'optimisation', a caching shortcut, a reordered statement, a narrowed or widened exception handler, a forgotten reset, an off-by-one ...), not an obviously malicious line, and
 (4) needs something SPECIFIC to manifest -- {flavour} -- rather than something ordinary use would expose at once. Prefer subtle over blatant; make the three changes genuinely different from one another (different files/mechanisms/triggers where possible).

For each change i = 1, 2, 3 deliver in {wt}.out/:
  - m<i>.diff   : the change as a unified diff produced by `git -C {wt} diff` (must apply with `git apply` to a clean checkout of the same commit),
  - demo<i>.py  : a small self-contained demonstration program, run as `/venv/bin/python demo<i>.py <path-to-tree>` (it must insert <path-to-tree> at the front of sys.path and import droop / Droop from there), which exits 0 on the UNCHANGED tree and exits non-zero (printing what went wrong) on the tree with m<i>.diff applied. The demo must check the property as stated above (nothing stronger), using only the public behaviour of the package (e.g. for interruption: sys.settrace to raise KeyboardInterrupt at a chosen line event inside Election.count(), then report(True)/dump(True)/json(True); for history-dependence: run elections back to back in one process and compare with a fresh subprocess; for ballot files: ElectionProfile(data=...) / ElectionProfile(path=...) and Election(profile, {{'rule': r}})).
  - note<i>.txt : 3-8 lines: what the change is, why it breaks the property, and exactly what is needed for it to manifest.

Procedure for each change: start from a clean tree (`git -C {wt} checkout -- . && git -C {wt} status --short` must be empty), make the edit, run the full test suite (must be 207 passed), run your demo against {wt} (must fail) and save the diff; then `git -C {wt} checkout -- .` and run the demo again against the now-clean tree (must exit 0). Leave the worktree clean at the end. Do not commit anything. Do not modify the tests. Do not install anything (there is no network).

Read the package source first (it is small: droop/election.py, droop/record.py, droop/profile.py, droop/options.py, droop/values/*.py, droop/rules/*.py, Droop.py). Final answer: a short list of the three changes with one line each and the file names you wrote.""")
