#!/bin/bash
# usage: evalall.sh PROP agent...
prop=$1; shift
for a in "$@"; do for i in 1 2 3; do /venv/bin/python /verif/tools/evalmut.py $prop /tmp/mut_$a.out/m$i.diff /tmp/mut_$a.out/demo$i.py $prop-$a-m$i --note /tmp/mut_$a.out/note$i.txt 2>&1 | /venv/bin/python -c "
import sys,json
try:
    d=json.load(sys.stdin)
except Exception as e:
    print('EVAL FAILED',e); sys.exit()
print(d['id'],'confirmed',d['confirmed'],'suite',d['suite'],'demo',d['demo_on_changed'],d['demo_on_unchanged'],'DETECTED',d['detected'],d['check']['exit'],d['check']['seconds']); print('   ',[l[:230] for l in d['check']['violation_lines'][:4]])"; done; done
