#!/venv/bin/python
"""evalmut.py <property> <patch.diff> <demo.py> <seeded-id> [--note FILE] [--tier quick] [--env K=V ...]

Confirm a seeded change and run the property's check against it:
  1. scratch worktree of /repo HEAD under /tmp, patch applied
  2. the pinned test suite still passes on it
  3. the demonstration fails on the changed tree and passes on the unchanged tree
  4. the check (quick by default) is run with --repo <scratch> and VERIF_OUT in a temp dir
  5. results are written to /verif/seeded/<id>/ (patch.diff, demo.py, note.txt, meta.json)
The scratch worktree is removed afterwards.
"""

import json
import os
import shutil
import subprocess
import sys
import tempfile
import time

VERIF = os.path.dirname(os.path.dirname(os.path.abspath(__file__)))
PY = '/venv/bin/python'


def sh(cmd, cwd=None, env=None, timeout=3600):
    p = subprocess.run(cmd, cwd=cwd, env=env, capture_output=True, text=True, timeout=timeout, check=False)
    return p.returncode, p.stdout + p.stderr


def main(argv):
    prop, patch, demo, sid = argv[:4]
    rest = argv[4:]
    note = None
    tier = 'quick'
    extra_env = {}
    i = 0
    while i < len(rest):
        if rest[i] == '--note':
            note = rest[i + 1]
            i += 2
        elif rest[i] == '--tier':
            tier = rest[i + 1]
            i += 2
        elif rest[i] == '--env':
            k, v = rest[i + 1].split('=', 1)
            extra_env[k] = v
            i += 2
        else:
            i += 1
    wt = tempfile.mkdtemp(prefix='droop-mut-')
    os.rmdir(wt)
    out = tempfile.mkdtemp(prefix='droop-mut-out-')
    meta = dict(id=sid, property=prop, patch=os.path.basename(patch))
    try:
        rc, o = sh(['git', '-C', '/repo', 'worktree', 'add', '-q', '--detach', wt, 'HEAD'])
        if rc:
            print(o)
            return 2
        meta['base_commit'] = sh(['git', '-C', '/repo', 'rev-parse', '--short', 'HEAD'])[1].strip()
        rc, o = sh(['git', '-C', wt, 'apply', os.path.abspath(patch)])
        meta['applies'] = rc == 0
        if rc:
            print("patch does not apply:", o)
            return 2
        rc, o = sh([PY, '-m', 'pytest', '-q', '-p', 'no:cacheprovider', '--timeout=900'], cwd=wt)
        meta['suite'] = o.strip().splitlines()[-1] if o.strip() else ''
        meta['suite_passes'] = rc == 0
        rc1, o1 = sh([PY, os.path.abspath(demo), wt], cwd=out)
        rc0, o0 = sh([PY, os.path.abspath(demo), '/repo'], cwd=out)
        meta['demo_on_changed'] = rc1
        meta['demo_on_unchanged'] = rc0
        meta['demo_output_changed'] = o1[-600:]
        meta['confirmed'] = bool(meta['suite_passes'] and rc1 != 0 and rc0 == 0)
        env = dict(os.environ)
        env['VERIF_OUT'] = out
        env.update(extra_env)
        t0 = time.time()
        rc, o = sh([PY, os.path.join(VERIF, 'check.py'), prop, tier, '--repo', wt], cwd=VERIF, env=env)
        meta['check'] = dict(cmd='check.py %s %s --repo <scratch worktree with the patch applied>' % (prop, tier),
                             env=extra_env, exit=rc, seconds=round(time.time() - t0, 1),
                             violation_lines=[ln for ln in o.splitlines() if ln.startswith(('VIOLATION', '  '))][:12],
                             summary=[ln for ln in o.splitlines() if ln.startswith(prop + ' ')][-1:])
        meta['detected'] = rc == 1
        print(json.dumps(meta, indent=1))
        dest = os.path.join(VERIF, 'seeded', sid)
        os.makedirs(dest, exist_ok=True)
        def cp(src, name):
            dst = os.path.join(dest, name)
            if os.path.abspath(src) != os.path.abspath(dst):
                shutil.copy(src, dst)
        cp(patch, 'patch.diff')
        cp(demo, 'demo.py')
        if note and os.path.exists(note):
            cp(note, 'note.txt')
            with open(note, encoding='utf-8') as f:
                meta['needs'] = f.read().strip()
        with open(os.path.join(dest, 'meta.json'), 'w', encoding='utf-8') as f:
            json.dump(meta, f, indent=1)
            f.write('\n')
        return 0
    finally:
        sh(['git', '-C', '/repo', 'worktree', 'remove', '--force', wt])
        shutil.rmtree(wt, ignore_errors=True)
        shutil.rmtree(out, ignore_errors=True)
        sh(['git', '-C', '/repo', 'worktree', 'prune'])


if __name__ == '__main__':
    sys.exit(main(sys.argv[1:]))
