#!/venv/bin/python
"""check.py <C16|C19|C20|selftest> <quick|thorough> [--replay FILE] [--repo DIR] [--setup]

Exit 0: the property held on everything explored (KNOWN-FINDING lines allowed).
Exit 1: at least one unlisted violation, each with `VIOLATION property=<id> replay=<path>`.
Exit 2: harness error (budget kill, dead worker, replay mismatch, zero work) -- never a verdict.
"""

import json
import os
import sys

if os.environ.get('PYTHONHASHSEED') is None and '--no-reexec' not in sys.argv:
    # fix the hash seed: nothing depends on it (self-test), but a replay must be a pure function of one integer
    os.environ['PYTHONHASHSEED'] = '0'
    os.execv(sys.executable, [sys.executable] + sys.argv)

sys.path.insert(0, os.path.dirname(os.path.abspath(__file__)))
sys.dont_write_bytecode = True

from dsim import core      # noqa: E402  pylint: disable=wrong-import-position


def usage():
    print(__doc__)
    return core.EXIT_HARNESS


def main(argv):
    args = [a for a in argv if a != '--no-reexec']
    if '--setup' in args:
        os.makedirs(core.EVIDENCE_DIR, exist_ok=True)
        os.makedirs(core.REPLAY_DIR, exist_ok=True)
        if sys.version_info < (3, 11):
            print("HARNESS-ERROR python >= 3.11 needed")
            return core.EXIT_HARNESS
        print("setup ok: python %s, %d cpus" % (sys.version.split()[0], os.cpu_count() or 1))
        return core.EXIT_OK
    repo_path = None
    replay = None
    pos = []
    i = 0
    while i < len(args):
        a = args[i]
        if a == '--repo':
            repo_path = args[i + 1]
            i += 2
        elif a == '--replay':
            replay = args[i + 1]
            i += 2
        else:
            pos.append(a)
            i += 1
    if not pos:
        return usage()
    prop = pos[0]
    tier = pos[1] if len(pos) > 1 else os.environ.get('VERIF_TIER', 'quick')
    if tier not in ('quick', 'thorough'):
        return usage()
    seed = core.env_seed()
    try:
        R = core.bind_repo(repo_path)
        if prop == 'C19':
            from dsim import run_c19 as eng      # pylint: disable=import-outside-toplevel
        elif prop == 'C16':
            from dsim import run_c16 as eng      # pylint: disable=import-outside-toplevel
        elif prop == 'C20':
            from dsim import run_c20 as eng      # pylint: disable=import-outside-toplevel
        elif prop == 'selftest':
            from dsim import selftest as eng     # pylint: disable=import-outside-toplevel
        else:
            return usage()
        if replay:
            with open(replay, encoding='utf-8') as f:
                obj = json.load(f)
            if obj.get('optimised') and not sys.flags.optimize:
                # found in an interpreter started with -O (asserts compiled away): replay it in one
                os.environ['PYTHONDONTWRITEBYTECODE'] = '1'
                sys.stdout.flush()
                os.execv(sys.executable, [sys.executable, '-O', os.path.abspath(__file__)] + sys.argv[1:])
            return eng.replay(R, obj)
        print("VERIF_SEED=%d tier=%s property=%s repo=%s tree=%s workers=%d" % (
            seed, tier, prop, R.path, R.tree[:12], core.nproc()))
        sys.stdout.flush()
        return eng.run(R, tier, seed)
    except core.HarnessError as e:
        print("HARNESS-ERROR property=%s %s" % (prop, str(e)[:3000]))
        return core.EXIT_HARNESS


if __name__ == '__main__':
    try:
        code = main(sys.argv[1:])
    except SystemExit:
        raise
    except KeyboardInterrupt:
        print("HARNESS-ERROR interrupted")
        code = core.EXIT_HARNESS
    except BaseException as e:      # pylint: disable=broad-except
        # an exception of the harness itself must never look like a verdict (exit 1)
        import traceback
        traceback.print_exc()
        print("HARNESS-ERROR unexpected %s: %s" % (type(e).__name__, str(e)[:500]))
        code = core.EXIT_HARNESS
    sys.exit(code)
